#include <assert.h>
#include <stdint.h>
#include <stdlib.h>
#include "cbor.h"
unsigned char nondet_uchar(void); size_t nondet_size_t(void);
static size_t live; 
static void* m(size_t n){ void* p=malloc(n); __CPROVER_assume(p); live++; return p; }
static void* r(void* q,size_t n){ void* p=realloc(q,n); __CPROVER_assume(p); if(!q) live++; return p; }
static void f(void* p){ if(p) live--; free(p); }
void harness(void){
  cbor_set_allocs(m,r,f);
  cbor_item_t* c1 = cbor_build_uint8(nondet_uchar()); cbor_item_t* c2 = cbor_build_negint16(7); __CPROVER_assume(c1&&c2);
  cbor_item_t* a = cbor_new_indefinite_array(); __CPROVER_assume(a);
  _Bool ok = cbor_array_push(a,c1); __CPROVER_assume(ok); ok = cbor_array_push(a,c2); __CPROVER_assume(ok); ok = cbor_array_push(a,c1); __CPROVER_assume(ok);
  /* owners: c1: client + 2 slots = 3, c2: client + 1 = 2, a: client = 1. Add arbitrary surplus (other owners elsewhere). */
  size_t s1 = nondet_size_t(), s2 = nondet_size_t(), sa = nondet_size_t();
  __CPROVER_assume(s1 < SIZE_MAX-8 && s2 < SIZE_MAX-8 && sa < SIZE_MAX-8);
  /* client drops its own refs on children via move-semantics: now c1 = 2+s1, c2 = 1+s2 */
  c1->refcount = 2 + s1; c2->refcount = 1 + s2; a->refcount = 1 + sa;
  size_t live0 = live;
  cbor_item_t* ah = a;
  cbor_decref(&ah);
  if (sa > 0) { assert(ah == a && a->refcount == sa && c1->refcount == 2+s1 && c2->refcount == 1+s2 && live==live0); }
  else {
    assert(ah == 0);
    size_t freed = 2; /* array item + data block */
    if (s1 == 0) freed += 1; else assert(c1->refcount == s1);
    if (s2 == 0) freed += 1; else assert(c2->refcount == s2);
    assert(live == live0 - freed);
  }
#ifdef WITNESS
  assert(0);
#endif
}
