#include <assert.h>
#include <stdint.h>
#include <stdlib.h>
#include "cbor.h"
size_t nondet_size_t(void);
unsigned char nondet_uchar(void);
#ifndef MAXN
#define MAXN 3
#endif
void harness(void){
  size_t n = nondet_size_t();
  __CPROVER_assume(n <= MAXN);
  unsigned char* buf = malloc(n);
  __CPROVER_assume(buf != 0);
  for (size_t i=0;i<n;i++) buf[i]=nondet_uchar();
  struct cbor_load_result res;
  cbor_item_t* it = cbor_load(buf, n, &res);
  free(buf);
  if (it) {
    assert(res.error.code == CBOR_ERR_NONE);
    assert(res.read <= n && res.read > 0);
    size_t sz = cbor_serialized_size(it);
    assert(sz>0);
    cbor_decref(&it);
    assert(it == 0);
  } else {
    assert(res.error.code != CBOR_ERR_NONE);
  }
#ifdef WITNESS
  assert(0);
#endif
}
