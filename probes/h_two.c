#include <assert.h>
#include <stdint.h>
#include <stdlib.h>
#include <string.h>
#include "cbor.h"
size_t nondet_size_t(void); unsigned char nondet_uchar(void);
struct rec { int slot; int calls; uint64_t a; size_t off; uint64_t len; };
static struct rec R[2]; static int cur; static const unsigned char* base[2];
#define CB0(name, id) static void r_##name(void* c){ R[cur].slot=id; R[cur].calls++; }
#define CBV(name, id, T) static void r_##name(void* c, T v){ R[cur].slot=id; R[cur].calls++; R[cur].a=(uint64_t)v; }
CBV(uint8,1,uint8_t) CBV(uint16,2,uint16_t) CBV(uint32,3,uint32_t) CBV(uint64,4,uint64_t)
CBV(negint8,5,uint8_t) CBV(negint16,6,uint16_t) CBV(negint32,7,uint32_t) CBV(negint64,8,uint64_t)
static void r_bs(void*c, cbor_data d, uint64_t l){R[cur].slot=9;R[cur].calls++;R[cur].off=d-base[cur];R[cur].len=l;}
CB0(bs_start,10)
static void r_str(void*c, cbor_data d, uint64_t l){R[cur].slot=11;R[cur].calls++;R[cur].off=d-base[cur];R[cur].len=l;}
CB0(str_start,12)
CBV(arr,13,uint64_t) CB0(iarr,14) CBV(map,15,uint64_t) CB0(imap,16) CBV(tag,17,uint64_t)
static void r_f2(void*c,float v){union{float f;uint32_t u;}x={.f=v};R[cur].slot=18;R[cur].calls++;R[cur].a=x.u;}
static void r_f4(void*c,float v){union{float f;uint32_t u;}x={.f=v};R[cur].slot=19;R[cur].calls++;R[cur].a=x.u;}
static void r_f8(void*c,double v){union{double f;uint64_t u;}x={.f=v};R[cur].slot=20;R[cur].calls++;R[cur].a=x.u;}
CB0(undef,21) CB0(null,22) CBV(boolean,23,bool) CB0(brk,24)
static const struct cbor_callbacks CBS = {
 .uint8=r_uint8,.uint16=r_uint16,.uint32=r_uint32,.uint64=r_uint64,
 .negint8=r_negint8,.negint16=r_negint16,.negint32=r_negint32,.negint64=r_negint64,
 .byte_string_start=r_bs_start,.byte_string=r_bs,.string=r_str,.string_start=r_str_start,
 .indef_array_start=r_iarr,.array_start=r_arr,.indef_map_start=r_imap,.map_start=r_map,
 .tag=r_tag,.float2=r_f2,.float4=r_f4,.float8=r_f8,.undefined=r_undef,.null=r_null,.boolean=r_boolean,.indef_break=r_brk};
#define MAXN 12
void harness(void){
  size_t n1 = nondet_size_t(), n2 = nondet_size_t();
  __CPROVER_assume(n1 <= n2 && n2 <= MAXN);
  unsigned char* b2 = malloc(n2); unsigned char* b1 = malloc(n1); __CPROVER_assume(b1 && b2);
  for (size_t i=0;i<MAXN;i++) if (i<n2) { b2[i]=nondet_uchar(); if (i<n1) b1[i]=b2[i]; }
  base[0]=b1; base[1]=b2;
  cur=0; struct cbor_decoder_result r1 = cbor_stream_decode(b1, n1, &CBS, 0);
  cur=1; struct cbor_decoder_result r2 = cbor_stream_decode(b2, n2, &CBS, 0);
  if (r1.status==CBOR_DECODER_FINISHED){ /* more bytes never change a finished result */
    assert(r2.status==CBOR_DECODER_FINISHED && r2.read==r1.read && R[0].calls==1 && R[1].calls==1 && R[0].slot==R[1].slot && R[0].a==R[1].a && R[0].off==R[1].off && R[0].len==R[1].len);
  } else if (r1.status==CBOR_DECODER_ERROR){ assert(n1==0 || r2.status==CBOR_DECODER_ERROR);
  } else { /* NEDATA */
    assert(R[0].calls==0 && r1.read==0);
#ifndef SKIP_REQ
    assert(r1.required > n1);
#endif
    if (n2 < r1.required) assert(r2.status==CBOR_DECODER_NEDATA && r2.required >= r1.required);
    else assert(r2.status!=CBOR_DECODER_ERROR || n1==0);
    if (r2.status==CBOR_DECODER_FINISHED) assert(r2.read >= r1.required);
  }
}
