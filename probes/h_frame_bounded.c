#include <assert.h>
#include <stdint.h>
#include <stdlib.h>
#include "cbor.h"
unsigned char nondet_uchar(void); size_t nondet_size_t(void);
void shim_init(void);
#define FRAME __CPROVER_requires(__CPROVER_w_ok(buffer, buffer_size)) __CPROVER_assigns(__CPROVER_object_upto(buffer, buffer_size)) __CPROVER_ensures(__CPROVER_return_value <= buffer_size)
size_t cbor_serialize(const cbor_item_t* item, unsigned char* buffer, size_t buffer_size) FRAME;
size_t cbor_serialize_array(const cbor_item_t* item, unsigned char* buffer, size_t buffer_size) FRAME;
size_t cbor_serialize_map(const cbor_item_t* item, unsigned char* buffer, size_t buffer_size) FRAME;
void h_frame(void){
  shim_init();
  cbor_item_t* c1 = cbor_build_uint8(nondet_uchar()); cbor_item_t* c2 = cbor_build_uint8(nondet_uchar()); __CPROVER_assume(c1 && c2);
#if KIND==1
  cbor_item_t* root = cbor_new_indefinite_array(); __CPROVER_assume(root!=0); _Bool ok = cbor_array_push(root, c1); __CPROVER_assume(ok); ok = cbor_array_push(root, c2); __CPROVER_assume(ok);
#else
  cbor_item_t* root = cbor_new_definite_map(1); __CPROVER_assume(root!=0); _Bool ok = cbor_map_add(root, (struct cbor_pair){.key=c1,.value=c2}); __CPROVER_assume(ok);
#endif
  size_t bn = nondet_size_t(); __CPROVER_assume(bn<=12);
  unsigned char* out = malloc(bn); __CPROVER_assume(out);
#if KIND==1
  size_t s = cbor_serialize_array(root, out, bn);
#else
  size_t s = cbor_serialize_map(root, out, bn);
#endif
}
