#include <assert.h>
#include <stdint.h>
#include <stdlib.h>
#include "cbor.h"
unsigned char nondet_uchar(void); size_t nondet_size_t(void);
void shim_init(void);
#define FRAME __CPROVER_requires(1) __CPROVER_assigns(__CPROVER_object_whole(buffer)) __CPROVER_ensures(1)
size_t cbor_serialize(const cbor_item_t* item, unsigned char* buffer, size_t buffer_size) FRAME;
size_t cbor_serialize_tag(const cbor_item_t* item, unsigned char* buffer, size_t buffer_size) FRAME;
size_t cbor_serialize_array(const cbor_item_t* item, unsigned char* buffer, size_t buffer_size) FRAME;
void h_frame(void){
  shim_init();
  cbor_item_t* child = cbor_build_uint8(nondet_uchar()); __CPROVER_assume(child!=0);
#if KIND==0
  cbor_item_t* root = cbor_build_tag(nondet_size_t(), child);
#else
  cbor_item_t* root = cbor_new_indefinite_array(); __CPROVER_assume(root!=0); _Bool ok = cbor_array_push(root, child); __CPROVER_assume(ok);
#endif
  __CPROVER_assume(root!=0);
  size_t bn = nondet_size_t(); __CPROVER_assume(bn<=12);
  unsigned char* out = malloc(bn); __CPROVER_assume(out);
#if KIND==0
  size_t s = cbor_serialize_tag(root, out, bn);
#else
  size_t s = cbor_serialize_array(root, out, bn);
#endif
}
