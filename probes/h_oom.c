#include <assert.h>
#include <stdint.h>
#include <stdlib.h>
#include <string.h>
#include "cbor.h"
size_t nondet_size_t(void); unsigned char nondet_uchar(void); _Bool nondet_bool(void);
static size_t live, reqs; static _Bool inject; static size_t failk = FAILK; static _Bool failstop = FAILSTOP;
static _Bool should_fail(void){ size_t i = reqs++; return inject && (failstop ? i >= failk : i == failk); }
static void* my_malloc(size_t n){ if (should_fail()) return 0; void* p = malloc(n); __CPROVER_assume(p!=0); live++; return p; }
static void* my_realloc(void* q, size_t n){ if (should_fail()) return 0; void* p = realloc(q, n); __CPROVER_assume(p!=0); if(!q) live++; return p; }
static void my_free(void* p){ if (p) live--; free(p); }
/* skeleton: 83 38 ?? 62 ?? ?? c1 19 ?? ??  -> [negint8, "..", tag1(uint16)] */
static const int SK[] = {0x83,0x38,-1,0x62,-1,-1,0xc1,0x19,-1,-1};
#define N (sizeof(SK)/sizeof(SK[0]))
void harness(void){
  cbor_set_allocs(my_malloc, my_realloc, my_free);
  unsigned char buf[N];
  for (size_t i=0;i<N;i++) buf[i]= SK[i]<0 ? nondet_uchar() : (unsigned char)SK[i];
  struct cbor_load_result res;
#ifdef OOM_LOAD
  inject = 1; reqs = 0;
  cbor_item_t* it = cbor_load(buf, N, &res);
  inject = 0;
  if (!it) { assert(res.error.code == CBOR_ERR_MEMERROR); assert(live==0); return; }
  assert(res.read == N);
#else
  cbor_item_t* it = cbor_load(buf, N, &res);
  assert(it && res.read == N);
  size_t live0 = live;
  inject = 1; reqs = 0;
  cbor_item_t* cp = cbor_copy(it);
  inject = 0;
  if (!cp) assert(live == live0); else cbor_decref(&cp);
  assert(cbor_refcount(it)==1);
#endif
  cbor_decref(&it);
  assert(live==0);
}
