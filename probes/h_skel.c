#include <assert.h>
#include <stdint.h>
#include <stdlib.h>
#include <string.h>
#include "cbor.h"
size_t nondet_size_t(void);
unsigned char nondet_uchar(void);
/* skeleton: 9f 18 ?? 62 ?? ?? c1 1b ?*8 a1 f9 ?? ?? 5f 41 ?? ff ff */
static const int SK[] = {0x9f,0x18,-1,0x62,-1,-1,0xc1,0x1b,-1,-1,-1,-1,-1,-1,-1,-1,0xa1,0xf9,-1,-1,0x5f,0x41,-1,0xff,0xff};
#define N (sizeof(SK)/sizeof(SK[0]))
void harness(void){
  unsigned char* buf = malloc(N);
  __CPROVER_assume(buf != 0);
  for (size_t i=0;i<N;i++) buf[i]= SK[i]<0 ? nondet_uchar() : (unsigned char)SK[i];
  struct cbor_load_result res;
  cbor_item_t* it = cbor_load(buf, N, &res);
  assert(it != 0);
  assert(res.read == N);
  free(buf);
  size_t sz = cbor_serialized_size(it);
  assert(sz == N);
  size_t bn = nondet_size_t(); __CPROVER_assume(bn <= N+2);
  unsigned char* out = malloc(bn); __CPROVER_assume(out!=0);
  size_t w = cbor_serialize(it, out, bn);
  assert(w == (bn>=N ? N : 0));
  cbor_item_t* cp = cbor_copy(it);
  assert(cp);
  cbor_decref(&it);
  assert(cbor_serialized_size(cp)==N);
  cbor_decref(&cp);
  assert(it == 0 && cp==0);
#ifdef WITNESS
  assert(0);
#endif
}
