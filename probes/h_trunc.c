#include <assert.h>
#include <stdint.h>
#include <stdlib.h>
#include "cbor.h"
unsigned char nondet_uchar(void); size_t nondet_size_t(void); int nondet_int(void);
static const int SK[] = {0x9f,0x38,-1,0x62,-1,-1,0xc1,0x19,-1,-1,0xa1,0xf9,-1,-1,0x5f,0x41,-1,0xff,0xff};
#define N (sizeof(SK)/sizeof(SK[0]))
void harness(void){
  size_t n = nondet_size_t(); __CPROVER_assume(n <= N);
  unsigned char* buf = malloc(n); __CPROVER_assume(buf);
  for (size_t i=0;i<N;i++) if (i<n) buf[i]= SK[i]<0 ? nondet_uchar() : (unsigned char)SK[i];
  struct cbor_load_result res; res.read = nondet_size_t(); res.error.position = nondet_size_t(); res.error.code = nondet_int();
  cbor_item_t* it = cbor_load(buf, n, &res);
  free(buf);
  if (n == N) { assert(it && res.read==N && res.error.code==CBOR_ERR_NONE); cbor_decref(&it); }
  else if (n == 0) { assert(!it && res.error.code==CBOR_ERR_NODATA); }
  else { assert(!it && res.error.code==CBOR_ERR_NOTENOUGHDATA && res.error.position <= n && res.read == res.error.position); }
}
