#include <assert.h>
#include <stdint.h>
#include <stddef.h>
#include "cbor.h"
unsigned char nondet_uchar(void);
/* Any direct libc heap call from the library is a violation. */
void* malloc(size_t n){ __CPROVER_assert(0, "direct libc malloc"); return 0; }
void* calloc(size_t a, size_t b){ __CPROVER_assert(0, "direct libc calloc"); return 0; }
void* realloc(void* p, size_t n){ __CPROVER_assert(0, "direct libc realloc"); return 0; }
void free(void* p){ __CPROVER_assert(0, "direct libc free"); }
/* Tagging allocator with its own provenance table */
#define MAXB 64
static void* blk[MAXB]; static _Bool livef[MAXB]; static size_t nblk; static size_t nreq;
static void* a_malloc(size_t n){ nreq++; assert(nblk<MAXB); void* p = __CPROVER_allocate(n, 0); blk[nblk]=p; livef[nblk]=1; nblk++; return p; }
static size_t find(void* p){ for(size_t i=0;i<nblk;i++) if (blk[i]==p) return i; return MAXB; }
static void a_free(void* p){ if(!p) return; size_t i=find(p); __CPROVER_assert(i<MAXB, "free of foreign pointer"); __CPROVER_assert(livef[i], "double free"); livef[i]=0; __CPROVER_deallocate(p); }
static void* a_realloc(void* q, size_t n){ nreq++; void* p = __CPROVER_allocate(n,0); assert(nblk<MAXB); if(q){ size_t i=find(q); __CPROVER_assert(i<MAXB && livef[i], "realloc of foreign/dead pointer"); size_t old=__CPROVER_OBJECT_SIZE(q); __CPROVER_array_copy((char*)p,(char*)q); /* conservative */ livef[i]=0; __CPROVER_deallocate(q);} blk[nblk]=p; livef[nblk]=1; nblk++; return p; }
static const int SK[] = {0x9f,0x38,-1,0x62,-1,-1,0xc1,0x19,-1,-1,0x5f,0x41,-1,0x41,-1,0xff,0xff};
#define N (sizeof(SK)/sizeof(SK[0]))
void harness(void){
  cbor_set_allocs(a_malloc, a_realloc, a_free);
  unsigned char buf[N];
  for (size_t i=0;i<N;i++) buf[i]= SK[i]<0 ? nondet_uchar() : (unsigned char)SK[i];
  struct cbor_load_result res;
  cbor_item_t* it = cbor_load(buf, N, &res);
  assert(it && res.read == N);
  size_t r0 = nreq;
  unsigned char out[N+1];
  size_t sz = cbor_serialized_size(it);
  size_t w = cbor_serialize(it, out, sizeof out);
  assert(nreq == r0);
  cbor_item_t* cp = cbor_copy(it);
  assert(cp);
  cbor_decref(&it); cbor_decref(&cp);
  for (size_t i=0;i<nblk;i++) assert(!livef[i]);
#ifdef WITNESS
  assert(0);
#endif
}
