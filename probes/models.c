#include <stdint.h>
#include <assert.h>
/* Model of ldexp for the only domain libcbor uses: exact scaling by a power of two. */
double ldexp(double x, int e) {
  __CPROVER_assert(e >= -1022 && e <= 1023, "ldexp model: exponent in normal range");
  union { double d; uint64_t u; } p;
  p.u = (uint64_t)(e + 1023) << 52;
  return x * p.d;
}
