#include <assert.h>
#include <stdint.h>
#include <math.h>
#include "cbor.h"
#include "cbor/internal/loaders.h"
uint16_t nondet_u16(void); uint32_t nondet_u32(void); uint64_t nondet_u64(void);
/* independent half -> single bit-level conversion (IEEE 754-2008 binary16 -> binary32) */
static uint32_t ref_half_to_single_bits(uint16_t h){
  uint32_t s = (uint32_t)(h & 0x8000u) << 16; uint32_t e = (h >> 10) & 0x1f; uint32_t m = h & 0x3ff;
  if (e == 0x1f) return s | 0x7f800000u | (m << 13);
  if (e != 0) return s | ((e + 112) << 23) | (m << 13);
  if (m == 0) return s;
  /* subnormal: normalise */
  int sh = 0; while (!(m & 0x400)) { m <<= 1; sh++; }
  m &= 0x3ff; return s | ((uint32_t)(113 - sh) << 23) | (m << 13);
}
void h_half(void){
  uint16_t h = nondet_u16();
  unsigned char in[2] = { (unsigned char)(h>>8), (unsigned char)h };
  float f = _cbor_load_half(in);
  union { float f; uint32_t u; } c = {.f = f};
  uint32_t exp = (h>>10)&0x1f, mant = h&0x3ff;
  if (exp==0x1f && mant!=0) { assert(isnan(f)); }
  else assert(c.u == ref_half_to_single_bits(h));
  unsigned char out[3];
  size_t w = cbor_encode_half(f, out, 3);
  assert(w==3 && out[0]==0xf9);
  if (exp==0x1f && mant!=0) assert(out[1]==0x7e && out[2]==0x00);
  else assert(out[1]==in[0] && out[2]==in[1]);
}
void h_half_total(void){
  union { float f; uint32_t u; } c; c.u = nondet_u32();
  unsigned char out[3];
  assert(cbor_encode_half(c.f, out, 3)==3);
}
void h_single(void){
  uint32_t b = nondet_u32();
  unsigned char in[4] = {b>>24,b>>16,b>>8,b};
  float f = _cbor_load_float(in);
  union { float f; uint32_t u; } c = {.f = f};
  int isn = ((b & 0x7f800000u)==0x7f800000u) && (b & 0x7fffffu);
  if (!isn) assert(c.u == b); else assert(isnan(f));
  unsigned char out[5];
  assert(cbor_encode_single(f,out,5)==5 && out[0]==0xfa);
  if (isn) assert(out[1]==0x7f&&out[2]==0xc0&&out[3]==0&&out[4]==0);
  else assert(out[1]==in[0]&&out[2]==in[1]&&out[3]==in[2]&&out[4]==in[3]);
}
void h_double(void){
  uint64_t b = nondet_u64();
  unsigned char in[8]; for(int i=0;i<8;i++) in[i]=(unsigned char)(b>>(56-8*i));
  double d = _cbor_load_double(in);
  union { double d; uint64_t u; } c = {.d = d};
  int isn = ((b & 0x7ff0000000000000ull)==0x7ff0000000000000ull) && (b & 0xfffffffffffffull);
  if (!isn) assert(c.u == b); else assert(isnan(d));
  unsigned char out[9];
  assert(cbor_encode_double(d,out,9)==9 && out[0]==0xfb);
  if (isn) { assert(out[1]==0x7f&&out[2]==0xf8); for(int i=3;i<9;i++) assert(out[i]==0);} 
  else for(int i=0;i<8;i++) assert(out[1+i]==in[i]);
}
void w_half(void){
  uint16_t h = nondet_u16();
  unsigned char in[2] = { (unsigned char)(h>>8), (unsigned char)h };
  float f = _cbor_load_half(in);
  unsigned char out[3];
  size_t w = cbor_encode_half(f, out, 3);
  assert(!(out[1]==0x03 && out[2]==0xff && f > 0.00006f)); /* must FAIL: h=0x03ff is largest subnormal 6.0976e-5 */
}
void m_half(void){ /* mutation check: claim wrong value */
  unsigned char in[2] = {0x3c, 0x00};
  float f = _cbor_load_half(in);
  assert(f == 1.0f);
  in[0]=0x00; in[1]=0x01; f = _cbor_load_half(in);
  assert(f == 5.9604644775390625e-8f);
  in[0]=0xfb; in[1]=0xff; f = _cbor_load_half(in);
  assert(f == -65504.0f);
}
