#include <assert.h>
#include <stdint.h>
#include <stdlib.h>
#include "cbor.h"
unsigned char nondet_uchar(void);
/* frame contract: computing the size assigns nothing */
size_t cbor_serialized_size(const cbor_item_t* item)
  __CPROVER_requires(1)
  __CPROVER_assigns()
  __CPROVER_ensures(1);

void shim_init(void);
void h_frame(void){ shim_init();
  cbor_item_t* child = cbor_build_uint8(nondet_uchar()); __CPROVER_assume(child!=0);
#ifdef USE_TAG
  cbor_item_t* root = cbor_build_tag(7, child);
#else
  cbor_item_t* root = cbor_new_definite_array(1); __CPROVER_assume(root!=0); (void)cbor_array_push(root, child);
#endif
  __CPROVER_assume(root!=0);
  size_t s = cbor_serialized_size(root);
  assert(s >= 2);
}
