#include <assert.h>
#include <stdint.h>
#include <stdlib.h>
#include "cbor.h"
unsigned char nondet_uchar(void);
#ifndef DEPTH
#define DEPTH (CBOR_MAX_STACK_SIZE+1)
#endif
#define N (DEPTH+2)
void harness(void){
  unsigned char* buf = malloc(N); __CPROVER_assume(buf);
  for (size_t i=0;i<DEPTH;i++) buf[i]=0xC2;
  buf[DEPTH]=0x41; buf[DEPTH+1]=nondet_uchar();
  struct cbor_load_result res;
  cbor_item_t* it = cbor_load(buf, N, &res);
  free(buf);
  if (DEPTH <= CBOR_MAX_STACK_SIZE) { assert(it && res.read==N); cbor_decref(&it); }
  else { assert(!it && res.error.code==CBOR_ERR_MEMERROR && res.error.position==CBOR_MAX_STACK_SIZE+1); }
}
