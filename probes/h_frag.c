#include <assert.h>
#include <stdint.h>
#include <stdlib.h>
#include <string.h>
#include "cbor.h"
size_t nondet_size_t(void); unsigned char nondet_uchar(void);
#define MAXEV (MAXN+1)
struct ev { int slot; uint64_t a; size_t off; };
static struct ev EV[2][MAXEV]; static size_t nev[2]; static int cur; static const unsigned char* base;
static void rec(int slot, uint64_t a, const unsigned char* p){ if (nev[cur]<MAXEV){ EV[cur][nev[cur]].slot=slot; EV[cur][nev[cur]].a=a; EV[cur][nev[cur]].off = p? (size_t)(p-base):0; } nev[cur]++; }
#define CB0(name,id) static void r_##name(void*c){rec(id,0,0);}
#define CBV(name,id,T) static void r_##name(void*c,T v){rec(id,(uint64_t)v,0);}
CBV(uint8,1,uint8_t) CBV(uint16,2,uint16_t) CBV(uint32,3,uint32_t) CBV(uint64,4,uint64_t)
CBV(negint8,5,uint8_t) CBV(negint16,6,uint16_t) CBV(negint32,7,uint32_t) CBV(negint64,8,uint64_t)
static void r_bs(void*c,cbor_data d,uint64_t l){rec(9,l,d);} CB0(bs_start,10)
static void r_str(void*c,cbor_data d,uint64_t l){rec(11,l,d);} CB0(str_start,12)
CBV(arr,13,uint64_t) CB0(iarr,14) CBV(map,15,uint64_t) CB0(imap,16) CBV(tag,17,uint64_t)
static void r_f2(void*c,float v){union{float f;uint32_t u;}x={.f=v};rec(18,x.u,0);}
static void r_f4(void*c,float v){union{float f;uint32_t u;}x={.f=v};rec(19,x.u,0);}
static void r_f8(void*c,double v){union{double f;uint64_t u;}x={.f=v};rec(20,x.u,0);}
CB0(undef,21) CB0(null,22) CBV(boolean,23,bool) CB0(brk,24)
static const struct cbor_callbacks CBS = {
 .uint8=r_uint8,.uint16=r_uint16,.uint32=r_uint32,.uint64=r_uint64,
 .negint8=r_negint8,.negint16=r_negint16,.negint32=r_negint32,.negint64=r_negint64,
 .byte_string_start=r_bs_start,.byte_string=r_bs,.string=r_str,.string_start=r_str_start,
 .indef_array_start=r_iarr,.array_start=r_arr,.indef_map_start=r_imap,.map_start=r_map,
 .tag=r_tag,.float2=r_f2,.float4=r_f4,.float8=r_f8,.undefined=r_undef,.null=r_null,.boolean=r_boolean,.indef_break=r_brk};
void harness(void){
  size_t n = nondet_size_t(); __CPROVER_assume(n<=MAXN);
  unsigned char* s = malloc(n); __CPROVER_assume(s); base = s;
  for (size_t i=0;i<n;i++) s[i]=nondet_uchar();
  /* one-shot run: decode at advancing offsets over the whole stream */
  cur = 0; size_t pos=0; int st0 = 0; /* 0 ok-end,1 nedata,2 error */
  for (size_t it=0; it<=MAXN; it++){
    if (pos>=n) break;
    struct cbor_decoder_result r = cbor_stream_decode(s+pos, n-pos, &CBS, 0);
    if (r.status==CBOR_DECODER_FINISHED) pos += r.read; else { st0 = r.status==CBOR_DECODER_NEDATA?1:2; break; }
  }
  size_t end0 = pos;
  /* fragmented run: bytes arrive in arbitrary chunks; client follows the documented protocol */
  cur = 1; size_t have=0, p=0; int st1=0; size_t want=1;
  for (size_t it=0; it<=2*MAXN+1; it++){
    if (have < n && (have < p + want)) { /* wait for more: arbitrary arrival, at least 1 byte */
      size_t k = nondet_size_t(); __CPROVER_assume(k>=1 && k<=n-have); have += k; continue; }
    if (p>=have) { if (have==n) break; want=1; continue; }
    struct cbor_decoder_result r = cbor_stream_decode(s+p, have-p, &CBS, 0);
    if (r.status==CBOR_DECODER_FINISHED){ p += r.read; want=1; }
    else if (r.status==CBOR_DECODER_NEDATA){ assert(r.required > have-p); want = r.required; if (have==n){ st1=1; break;} }
    else { st1=2; break; }
  }
  assert(st0==st1); assert(p==end0); assert(nev[0]==nev[1]);
  for (size_t i=0;i<MAXEV;i++) if (i<nev[0]) { assert(EV[0][i].slot==EV[1][i].slot && EV[0][i].a==EV[1][i].a && EV[0][i].off==EV[1][i].off); }
#ifdef WITNESS
  assert(0);
#endif
}
