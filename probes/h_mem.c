#include <assert.h>
#include <stdint.h>
#include <stdbool.h>
#include <stddef.h>
#include "cbor/internal/memory_utils.h"
size_t nondet_size_t(void);
void h_mul(void){
  size_t a = nondet_size_t(), b = nondet_size_t();
  if (_cbor_safe_to_multiply(a,b)) {
    __uint128_t p = (__uint128_t)a * (__uint128_t)b;
    assert(p <= (__uint128_t)SIZE_MAX);
  }
}
void h_add(void){
  size_t a = nondet_size_t(), b = nondet_size_t();
  __uint128_t s = (__uint128_t)a + b;
  assert(_cbor_safe_to_add(a,b) == (s <= SIZE_MAX));
  size_t r = _cbor_safe_signaling_add(a,b);
  if (a==0||b==0) assert(r==0); else assert(r == (s<=SIZE_MAX ? (size_t)s : 0));
}
