void h_frame(void); int main(void){ h_frame(); return 0; }
