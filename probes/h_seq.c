#include <assert.h>
#include <stdint.h>
#include <stdlib.h>
#include "cbor.h"
unsigned char nondet_uchar(void); size_t nondet_size_t(void);
#define CAP 3
static cbor_item_t* model[CAP+1]; static size_t msize;
void harness(void){
  size_t cap = nondet_size_t(); __CPROVER_assume(cap<=CAP);
#ifdef INDEF
  cbor_item_t* a = cbor_new_indefinite_array();
#else
  cbor_item_t* a = cbor_new_definite_array(cap);
#endif
  __CPROVER_assume(a);
  cbor_item_t* pool[3];
  for (int i=0;i<3;i++){ pool[i]=cbor_build_uint8(nondet_uchar()); __CPROVER_assume(pool[i]); }
  size_t shadow_rc[3] = {1,1,1};
  /* op sequence: push p0; set(i1,p1); replace(i2,p2); push p0 ; get(i3) */
  _Bool ok;
  ok = cbor_array_push(a, pool[0]);
#ifdef INDEF
  assert(ok);
#else
  assert(ok == (msize < cap));
#endif
  if (ok){ model[msize++]=pool[0]; }
  size_t i1 = nondet_size_t(); __CPROVER_assume(i1 <= msize+2);
  ok = cbor_array_set(a, i1, pool[1]);
#ifdef INDEF
  assert(ok == (i1 <= msize));
#else
  assert(ok == (i1 < msize || (i1==msize && msize<cap)));
#endif
  if (ok){ if (i1==msize) model[msize++]=pool[1]; else model[i1]=pool[1]; }
  size_t i2 = nondet_size_t(); __CPROVER_assume(i2 <= msize+2);
  ok = cbor_array_replace(a, i2, pool[2]);
  assert(ok == (i2 < msize));
  if (ok) model[i2]=pool[2];
  assert(cbor_array_size(a)==msize && cbor_array_size(a) <= cbor_array_allocated(a));
  for (size_t j=0;j<CAP+1;j++) if (j<msize) assert(cbor_array_handle(a)[j]==model[j]);
  for (int p=0;p<3;p++){ size_t cnt=1; for (size_t j=0;j<CAP+1;j++) if (j<msize && model[j]==pool[p]) cnt++; assert(cbor_refcount(pool[p])==cnt); }
  cbor_decref(&a);
  for (int p=0;p<3;p++){ assert(cbor_refcount(pool[p])==1); cbor_decref(&pool[p]); }
}
