#include <assert.h>
#include <stdint.h>
#include <stdlib.h>
#include "cbor.h"
size_t nondet_size_t(void); unsigned char nondet_uchar(void);
/* Independent RFC 3629 validator (Table 3-7 of Unicode / RFC 3629 section 4 ABNF). Returns count or -1. */
static long ref_utf8(const unsigned char* s, size_t n){
  size_t i=0; long cnt=0;
  while (i<n){
    unsigned char b=s[i];
    size_t need; unsigned char lo=0x80, hi=0xBF;
    if (b<=0x7F) need=0;
    else if (b>=0xC2 && b<=0xDF) need=1;
    else if (b==0xE0){need=2; lo=0xA0;}
    else if (b>=0xE1 && b<=0xEC) need=2;
    else if (b==0xED){need=2; hi=0x9F;}
    else if (b>=0xEE && b<=0xEF) need=2;
    else if (b==0xF0){need=3; lo=0x90;}
    else if (b>=0xF1 && b<=0xF3) need=3;
    else if (b==0xF4){need=3; hi=0x8F;}
    else return -1;
    if (n-i-1 < need) return -1;
    for (size_t k=1;k<=need;k++){
      unsigned char c=s[i+k];
      if (k==1){ if (c<lo||c>hi) return -1; } else if (c<0x80||c>0xBF) return -1;
    }
    i += need+1; cnt++;
  }
  return cnt;
}
void h_utf8(void){
  size_t n = nondet_size_t(); __CPROVER_assume(n<=MAXL);
  unsigned char* s = malloc(n); __CPROVER_assume(s!=0);
  unsigned char snap[MAXL+1];
  for (size_t i=0;i<n;i++){ s[i]=nondet_uchar(); snap[i]=s[i]; }
  cbor_item_t* it = cbor_new_definite_string(); __CPROVER_assume(it!=0);
  cbor_string_set_handle(it, s, n);
  long r = ref_utf8(s,n);
  assert(cbor_string_codepoint_count(it) == (r<0?0:(size_t)r));
  assert(cbor_string_length(it)==n && cbor_string_handle(it)==s);
  for (size_t i=0;i<n;i++) assert(s[i]==snap[i]);
  cbor_decref(&it);
}
