#include <assert.h>
#include <stdint.h>
#include <stdlib.h>
#include <pthread.h>
#include "cbor.h"
unsigned char nondet_uchar(void);
static cbor_item_t* child; static cbor_item_t* root;
static size_t observed;
void* observer(void* a){ observed = child->refcount; return 0; }
void h_ro(void){
  child = cbor_build_uint8(nondet_uchar()); __CPROVER_assume(child!=0);
#ifdef USE_TAG
  root = cbor_build_tag(7, child);
#else
  root = cbor_new_definite_array(1); __CPROVER_assume(root!=0); (void)cbor_array_push(root, child);
#endif
  __CPROVER_assume(root!=0);
  cbor_decref(&child == 0 ? 0 : &(cbor_item_t*){child}); /* drop our ref: child refcount 1 */
  size_t before = child->refcount;
  pthread_t t; pthread_create(&t, 0, observer, 0);
  unsigned char out[8];
  size_t w = cbor_serialize(root, out, 8);
  pthread_join(t, 0);
  assert(observed == before);
}
