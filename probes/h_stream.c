#include <assert.h>
#include <stdint.h>
#include <stdlib.h>
#include <string.h>
#include "cbor.h"

size_t nondet_size_t(void);
unsigned char nondet_uchar(void);

struct rec { int slot; int calls; uint64_t a; const unsigned char* p; uint64_t len; };
static struct rec R;
#define CB0(name, id) static void r_##name(void* c){ R.slot=id; R.calls++; }
#define CBV(name, id, T) static void r_##name(void* c, T v){ R.slot=id; R.calls++; R.a=(uint64_t)v; }
CBV(uint8,1,uint8_t) CBV(uint16,2,uint16_t) CBV(uint32,3,uint32_t) CBV(uint64,4,uint64_t)
CBV(negint8,5,uint8_t) CBV(negint16,6,uint16_t) CBV(negint32,7,uint32_t) CBV(negint64,8,uint64_t)
static void r_bs(void*c, cbor_data d, uint64_t l){R.slot=9;R.calls++;R.p=d;R.len=l;}
CB0(bs_start,10)
static void r_str(void*c, cbor_data d, uint64_t l){R.slot=11;R.calls++;R.p=d;R.len=l;}
CB0(str_start,12)
CBV(arr,13,uint64_t) CB0(iarr,14) CBV(map,15,uint64_t) CB0(imap,16) CBV(tag,17,uint64_t)
static void r_f2(void*c,float v){R.slot=18;R.calls++;}
static void r_f4(void*c,float v){R.slot=19;R.calls++;}
static void r_f8(void*c,double v){R.slot=20;R.calls++;}
CB0(undef,21) CB0(null,22)
static void r_bool(void*c,bool v){R.slot=23;R.calls++;R.a=v;}
CB0(brk,24)

static const struct cbor_callbacks CBS = {
 .uint8=r_uint8,.uint16=r_uint16,.uint32=r_uint32,.uint64=r_uint64,
 .negint8=r_negint8,.negint16=r_negint16,.negint32=r_negint32,.negint64=r_negint64,
 .byte_string_start=r_bs_start,.byte_string=r_bs,.string=r_str,.string_start=r_str_start,
 .indef_array_start=r_iarr,.array_start=r_arr,.indef_map_start=r_imap,.map_start=r_map,
 .tag=r_tag,.float2=r_f2,.float4=r_f4,.float8=r_f8,.undefined=r_undef,.null=r_null,.boolean=r_bool,.indef_break=r_brk};

#ifndef MAXN
#define MAXN 12
#endif
void harness(void){
  size_t n = nondet_size_t();
  __CPROVER_assume(n <= MAXN);
  unsigned char* buf = malloc(n);
  __CPROVER_assume(buf != 0);
  for (size_t i=0;i<n;i++) buf[i]=nondet_uchar();
  struct cbor_decoder_result r = cbor_stream_decode(buf, n, &CBS, 0);
  // reference
  if (n==0){ assert(r.status==CBOR_DECODER_NEDATA && r.read==0 && r.required==1 && R.calls==0); return; }
  unsigned char ib = buf[0]; unsigned mt = ib>>5, ai = ib&31;
  int reserved = (ai>=28 && ai<=30) || (ai==31 && (mt==0||mt==1||mt==6)) || (mt==7 && (ai<20 || ai==24));
  if (reserved){ assert(r.status==CBOR_DECODER_ERROR && r.read==0 && R.calls==0); return; }
  size_t argn = ai<24?0: ai==24?1: ai==25?2: ai==26?4: ai==27?8:0;
  if (n < 1+argn){ assert(r.status==CBOR_DECODER_NEDATA && r.read==0 && R.calls==0 && r.required==1+argn); return; }
  uint64_t arg = ai<24?ai:0; for (size_t i=0;i<argn;i++) arg = (arg<<8)|buf[1+i];
  if ((mt==2||mt==3) && ai!=31){
    if (arg > n-1-argn){ assert(r.status==CBOR_DECODER_NEDATA && r.read==0 && R.calls==0 && r.required > n);
       /* required <= full length when representable */
       if (arg <= SIZE_MAX-1-argn) assert(r.required == 1+argn+arg);
       return; }
    assert(r.status==CBOR_DECODER_FINISHED && r.read==1+argn+arg && R.calls==1 && R.slot==(mt==2?9:11) && R.len==arg && R.p==buf+1+argn && r.required==0);
    return;
  }
  assert(r.status==CBOR_DECODER_FINISHED && r.read==1+argn && R.calls==1 && r.required==0);
  if (mt==0) assert(R.a==arg && R.slot==(ai<25?1:ai==25?2:ai==26?3:4));
#ifdef WITNESS
  assert(0);
#endif
}
