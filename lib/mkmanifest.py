#!/usr/bin/env python3
"""Regenerates /verif/MANIFEST.json from the check modules' META so the two cannot drift."""
import importlib
import json
import os
import sys

HERE = os.path.dirname(os.path.dirname(os.path.abspath(__file__)))
sys.path.insert(0, os.path.join(HERE, "lib"))
sys.path.insert(0, HERE)

props = [json.loads(l) for l in open(os.path.join(HERE, "properties.jsonl"))]
NA = {}
na_path = os.path.join(HERE, "not_applicable.json")
if os.path.exists(na_path):
    NA = json.load(open(na_path))

checks, na = [], []
for p in props:
    pid = p["id"]
    path = os.path.join(HERE, "checks", pid.lower() + ".py")
    if pid in NA or not os.path.exists(path):
        na.append({"property_id": pid, "reason": NA.get(pid, "no check is registered for this property in this revision of /verif (work in progress); nothing is claimed")})
        continue
    m = importlib.import_module("checks." + pid.lower())
    meta = m.META
    c = {
        "property_id": pid,
        "quick_cmd": "./vcheck %s --tier quick" % pid,
        "thorough_cmd": "./vcheck %s --tier thorough" % pid,
        "evidence_file": "/verif/evidence/%s.json" % pid,
        "replay_cmd_template": "./vcheck --replay {path}",
        "engine": "cbmc",
        "level_claimed": {"category": meta.get("level", "model_checking"),
                          "text": meta.get("level_text", meta.get("explanation", "")),
                          "design_ref": meta.get("design_ref", "DESIGN.md section 5, " + pid)},
        "level_note": meta.get("level_note", "; ".join(meta.get("assumptions", []))),
        "technique": meta.get("technique", "bounded symbolic model checking of the real C sources with CBMC 6.11 (SAT back end), counterexamples replayed natively under ASan/UBSan"),
    }
    checks.append(c)

man = {
    "version": 1,
    "setup_cmd": "./setup.sh",
    "hooks": {
        "guard": "LIBCBOR_VERIF",
        "enable": "no hooks are needed: harnesses use only public headers, cbor_set_allocs and the library's own internal headers; the guard name is reserved and unused",
        "baseline_off_cmd": "cmake -G Ninja -S /repo -B /repo/_build -DWITH_TESTS=ON -DWITH_EXAMPLES=ON -DSANITIZE=ON -DCMAKE_BUILD_TYPE=RelWithDebInfo && cmake --build /repo/_build && ctest --test-dir /repo/_build -j8 --timeout 900",
        "source_commits": [],
        "add_only": True,
    },
    "engines": [{"name": "cbmc", "path": "/verif/vcheck", "serves_properties": [c["property_id"] for c in checks],
                 "kind_free_text": "python3 driver: regenerates goto-binaries from /repo/src on every run (goto-cc), runs one CBMC 6.11 query per obligation in a 16-worker pool with per-job timeout and address-space cap, requires a reachable witness per harness, replays every counterexample natively (gcc + ASan/UBSan) before printing VIOLATION"}],
    "checks": checks,
    "not_applicable": na,
    "notes": "Technique family: solver-based (bounded symbolic) checking of the real code. See DESIGN.md. known_findings.json lists repaired defects (fixed: entries suppress nothing).",
}
json.dump(man, open(os.path.join(HERE, "MANIFEST.json"), "w"), indent=1)
print("MANIFEST.json: %d checks, %d not applicable" % (len(checks), len(na)))
