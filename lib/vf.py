#!/usr/bin/env python3
"""Core of the libcbor solver-based verification framework (stdlib only).

  build      -- regenerates config headers and goto-binaries of /repo/src from the *current working tree*
  Obl        -- one CBMC obligation (harness + defines + bounds); run() produces a Result
  run_all    -- job pool with per-job timeout and address-space cap
  replay     -- native gcc+ASan/UBSan replay of a CBMC counterexample against the real sources
  Evidence   -- evidence/<id>.json writer
"""
import concurrent.futures as cf
import glob
import hashlib
import json
import os
import re
import resource
import shutil
import subprocess
import sys
import threading
import time

VERIF = os.path.dirname(os.path.dirname(os.path.abspath(__file__)))
REPO = os.environ.get("VERIF_REPO", "/repo")
SRC = os.path.join(REPO, "src")
CACHE = os.path.join(VERIF, ".cache")
WORK = os.path.join(VERIF, ".work")
HARNESS = os.path.join(VERIF, "harness")
REPLAYS = os.path.join(VERIF, "replays")
JOBS = int(os.environ.get("VERIF_JOBS", "0")) or min(16, os.cpu_count() or 4)

CBMC_BASE = ["--unwinding-assertions", "--pointer-overflow-check", "--undefined-shift-check",
             "--signed-overflow-check", "--drop-unused-functions", "--no-malloc-may-fail",
             "--object-bits", "12", "--max-field-sensitivity-array-size", "256"]

_print_lock = threading.Lock()


def log(*a):
    with _print_lock:
        print(*a, flush=True)


# ----------------------------------------------------------------------------------------------
# build
# ----------------------------------------------------------------------------------------------
def src_files():
    fs = sorted(glob.glob(os.path.join(SRC, "**", "*.c"), recursive=True))
    return fs


def src_hash(extra=""):
    h = hashlib.sha256()
    for f in sorted(glob.glob(os.path.join(SRC, "**", "*"), recursive=True)) + [os.path.join(REPO, "CMakeLists.txt")]:
        if os.path.isfile(f):
            h.update(f.encode())
            h.update(open(f, "rb").read())
    h.update(extra.encode())
    return h.hexdigest()[:16]


def cmake_defaults():
    txt = open(os.path.join(REPO, "CMakeLists.txt")).read()
    d = {}
    for k in ("CBOR_BUFFER_GROWTH", "CBOR_MAX_STACK_SIZE", "CBOR_VERSION_MAJOR", "CBOR_VERSION_MINOR", "CBOR_VERSION_PATCH"):
        m = re.search(r"set\(\s*%s\s+\"?([0-9]+)\"?" % k, txt)
        d[k] = m.group(1) if m else "0"
    m = re.search(r"option\(CBOR_PRETTY_PRINTER[^)]*\b(ON|OFF)\)", txt)
    d["CBOR_PRETTY_PRINTER"] = "1" if (not m or m.group(1) == "ON") else "0"
    return d


def gen_config(dirpath, stack=None):
    """configuration.h is generated from the repo's configuration.h.in with the CMake defaults."""
    d = cmake_defaults()
    if stack is not None:
        d["CBOR_MAX_STACK_SIZE"] = str(stack)
    d["CBOR_RESTRICT_SPECIFIER"] = "restrict"
    d["CBOR_INLINE_SPECIFIER"] = ""
    tmpl = open(os.path.join(SRC, "cbor", "configuration.h.in")).read()
    tmpl = re.sub(r"#cmakedefine01 (\w+)", lambda m: "#define %s %s" % (m.group(1), d.get(m.group(1), "0")), tmpl)
    tmpl = re.sub(r"\$\{(\w+)\}", lambda m: d.get(m.group(1), ""), tmpl)
    os.makedirs(os.path.join(dirpath, "cbor"), exist_ok=True)
    open(os.path.join(dirpath, "cbor", "configuration.h"), "w").write(tmpl)
    open(os.path.join(dirpath, "cbor", "cbor_export.h"), "w").write(
        "#ifndef CBOR_EXPORT_H\n#define CBOR_EXPORT_H\n#define CBOR_EXPORT\n#define CBOR_NO_EXPORT\n"
        "#define CBOR_DEPRECATED __attribute__((__deprecated__))\n#define CBOR_DEPRECATED_EXPORT CBOR_EXPORT CBOR_DEPRECATED\n"
        "#define CBOR_DEPRECATED_NO_EXPORT CBOR_NO_EXPORT CBOR_DEPRECATED\n#endif\n")
    return d


VARIANT_FLAGS = {
    "dbg": ["-DDEBUG=true"],
    "ndbg": ["-DNDEBUG"],
}


def variant_spec(variant):
    """variant: dbg | ndbg | stack<L> (dbg with CBOR_MAX_STACK_SIZE=L) | ...+noalloc (omit allocators.c)"""
    noalloc = variant.endswith("+noalloc")
    v = variant[:-8] if noalloc else variant
    stack = None
    flags = VARIANT_FLAGS.get(v)
    if flags is None:
        m = re.match(r"stack(\d+)$", v)
        if not m:
            raise ValueError("unknown variant " + variant)
        stack = int(m.group(1))
        flags = VARIANT_FLAGS["dbg"]
    return flags, stack, noalloc


_build_lock = threading.Lock()
_built = {}


def common_cflags(cfg):
    return ["-std=c99", "-DEIGHT_BYTE_SIZE_T", "-D_CBOR_HAS_BUILTIN_UNREACHABLE", "-I" + SRC, "-I" + cfg, "-I" + HARNESS]


def build_lib(variant):
    """Returns (path to linked goto-binary of the library, config include dir). Rebuilt whenever /repo/src changes."""
    with _build_lock:
        if variant in _built:
            return _built[variant]
        flags, stack, noalloc = variant_spec(variant)
        key = src_hash(variant + " ".join(flags))
        d = os.path.join(CACHE, key)
        cfg = os.path.join(d, "cfg")
        lib = os.path.join(d, "lib.gb")
        if not os.path.exists(lib):
            t0 = time.time()
            shutil.rmtree(d, ignore_errors=True)
            os.makedirs(d)
            gen_config(cfg, stack)
            objs = []
            procs = []
            for f in src_files():
                if noalloc and os.path.basename(f) == "allocators.c":
                    continue
                o = os.path.join(d, os.path.relpath(f, SRC).replace("/", "_") + ".gb")
                objs.append(o)
                procs.append((f, subprocess.Popen(["goto-cc"] + common_cflags(cfg) + flags + ["-c", f, "-o", o],
                                                 stdout=subprocess.PIPE, stderr=subprocess.STDOUT)))
            for f, p in procs:
                out = p.communicate()[0].decode()
                if p.returncode != 0:
                    raise BuildError("goto-cc failed on %s:\n%s" % (f, out))
            r = subprocess.run(["goto-cc"] + objs + ["-o", lib + ".tmp"], stdout=subprocess.PIPE, stderr=subprocess.STDOUT)
            if r.returncode != 0:
                raise BuildError("goto-cc link failed:\n" + r.stdout.decode())
            os.rename(lib + ".tmp", lib)
            log("[build] variant %s built in %.1fs (%s)" % (variant, time.time() - t0, key))
        _built[variant] = (lib, cfg, flags)
        return _built[variant]


class BuildError(Exception):
    pass


def prune_cache(keep=12):
    if not os.path.isdir(CACHE):
        return
    ds = sorted((os.path.join(CACHE, x) for x in os.listdir(CACHE)), key=os.path.getmtime)
    for d in ds[:-keep]:
        shutil.rmtree(d, ignore_errors=True)


# ----------------------------------------------------------------------------------------------
# obligations
# ----------------------------------------------------------------------------------------------
class Obl:
    """One solver obligation: harness file + -D defines + bounds, decided by one CBMC run.

    The harness ends with VF_WITNESS(), an always-false assertion whose *failure* proves the end of the
    harness is reachable under the assumptions (non-vacuity); every other property must hold.
    """

    def __init__(self, name, harness, defines=None, variant="dbg", unwind=None, unwindset=None, flags=None,
                 timeout=300, mem_gb=8, desc="", funcs=None, bounds="", nontrivial=True, sample=None,
                 extra_src=None, gen_src=None, pipeline="cbmc", dfcc=None, leak=False, backend=None,
                 no_witness=False, drop_base=None, depth=None, ptrcheck=True, cost=None, paths_first=False, advisory=False):
        self.name = name
        self.harness = harness
        self.defines = dict(defines or {})
        self.variant = variant
        self.unwind = unwind
        self.unwindset = unwindset or []
        self.flags = list(flags or [])
        self.timeout = min(timeout, int(os.environ.get("VERIF_TIMEOUT_CAP", "100000")))
        self.mem_gb = mem_gb
        self.desc = desc
        self.funcs = funcs or []
        self.bounds = bounds
        self.nontrivial = nontrivial
        self.sample = sample
        self.extra_src = list(extra_src or [])
        self.gen_src = gen_src          # dict filename -> content, written into the job dir and compiled
        self.pipeline = pipeline
        self.dfcc = dfcc or {}
        self.leak = leak
        self.backend = backend
        self.no_witness = no_witness
        self.drop_base = drop_base or []
        self.depth = depth
        self.cost = cost            # scheduling hint: heavy obligations start first
        self.paths_first = paths_first  # pre-pass with path-wise symex (--paths lifo --stop-on-fail): a defect that corrupts the heap is reported from the first failing path instead of blowing up the monolithic formula
        self._traces = {}
        self.advisory = advisory    # implementation-level lemma (extends a claim under the current implementation); its failure is recorded in the evidence but is not a violation of the property
        self.ptrcheck = ptrcheck   # False: functional obligation; memory-safety checks are decided by the safety obligations (C01)

    def key(self):
        return hashlib.sha1(json.dumps([self.name, self.harness, sorted(self.defines.items()), self.variant,
                                        self.unwind, self.unwindset, self.flags, self.gen_src, self.dfcc, self.ptrcheck],
                                       sort_keys=True, default=str).encode()).hexdigest()[:12]


class Result:
    def __init__(self, obl):
        self.obl = obl
        self.status = "ERROR"       # PASS | FAIL | VACUOUS | TIMEOUT | OOM | ERROR
        self.failed = []            # list of dicts (property, description, sourceLocation)
        self.unwinding_failed = []
        self.nprops = 0
        self.wall = 0.0
        self.solver_s = 0.0
        self.symex_s = 0.0
        self.rss_mb = 0
        self.msg = ""
        self.vcc = 0
        self.jobdir = None
        self.cmd = ""
        self.replay = None          # dict from replay()


def _limits(mem_gb):
    def f():
        b = int(mem_gb * (1 << 30))
        resource.setrlimit(resource.RLIMIT_AS, (b, b))
        os.setsid()
    return f


def _run(cmd, timeout, mem_gb, cwd=None):
    t0 = time.time()
    p = subprocess.Popen(cmd, stdout=subprocess.PIPE, stderr=subprocess.PIPE, cwd=cwd, preexec_fn=_limits(mem_gb))
    try:
        out, err = p.communicate(timeout=timeout)
        to = False
    except subprocess.TimeoutExpired:
        try:
            os.killpg(p.pid, 9)
        except Exception:
            p.kill()
        out, err = p.communicate()
        to = True
    ru = resource.getrusage(resource.RUSAGE_CHILDREN)
    return p.returncode, out.decode(errors="replace"), err.decode(errors="replace"), to, time.time() - t0


def define_flags(defs):
    out = []
    for k, v in defs.items():
        out.append("-D%s" % k if v is None or v is True else "-D%s=%s" % (k, v))
    return out


def compile_harness(obl, jobdir):
    lib, cfg, vflags = build_lib(obl.variant)
    srcs = [os.path.join(HARNESS, obl.harness)] + [os.path.join(HARNESS, s) for s in obl.extra_src]
    for fn, content in (obl.gen_src or {}).items():
        p = os.path.join(jobdir, fn)
        open(p, "w").write(content)
        if fn.endswith(".c"):
            srcs.append(p)
    srcs.append(os.path.join(HARNESS, "models.c"))
    objs = []
    for s in srcs:
        o = os.path.join(jobdir, os.path.basename(s) + ".gb")
        r = subprocess.run(["goto-cc"] + common_cflags(cfg) + vflags + ["-I" + jobdir] + define_flags(obl.defines) + ["-c", s, "-o", o],
                           stdout=subprocess.PIPE, stderr=subprocess.STDOUT)
        if r.returncode != 0:
            raise BuildError("goto-cc failed on harness %s:\n%s" % (s, r.stdout.decode()))
        objs.append(o)
    out = os.path.join(jobdir, "h.gb")
    r = subprocess.run(["goto-cc"] + objs + [lib, "-o", out], stdout=subprocess.PIPE, stderr=subprocess.STDOUT)
    if r.returncode != 0:
        raise BuildError("goto-cc link failed for %s:\n%s" % (obl.name, r.stdout.decode()))
    return out


def cbmc_cmd(obl, binary, extra=None):
    base = [f for f in CBMC_BASE if f not in obl.drop_base]
    if "--max-field-sensitivity-array-size" in obl.flags:
        base = [f for i, f in enumerate(CBMC_BASE) if f not in obl.drop_base and f != "--max-field-sensitivity-array-size" and (i == 0 or CBMC_BASE[i - 1] != "--max-field-sensitivity-array-size")]
    if "--object-bits" in obl.flags:
        i = base.index("--object-bits")
        del base[i:i + 2]
    cmd = ["cbmc", binary, "--function", obl.dfcc.get("entry", "harness") if obl.pipeline == "cbmc" else "main"]
    if obl.pipeline == "dfcc":
        cmd = ["cbmc", binary]
    cmd += base + obl.flags
    if obl.unwind is not None:
        cmd += ["--unwind", str(obl.unwind)]
    # data-independent library loops whose trip count is a property of the word size, not of the input (a loop id that does not
    # exist in the binary is only a warning): _cbor_highest_bit runs at most 64 (+1) times however it is written
    us = list(obl.unwindset)
    if not any(u.startswith("_cbor_highest_bit.0:") for u in us):
        us.append("_cbor_highest_bit.0:66")
    cmd += ["--unwindset", ",".join(us)]
    if obl.leak:
        cmd += ["--memory-leak-check"]
    if not obl.ptrcheck:
        cmd += ["--no-pointer-check"]
        cmd = [c for c in cmd if c != "--pointer-overflow-check"]
    if obl.depth:
        cmd += ["--depth", str(obl.depth)]
    if obl.backend == "kissat":
        cmd += ["--external-sat-solver", "kissat"]
    elif obl.backend == "cadical":
        cmd += ["--sat-solver", "cadical"]
    elif obl.backend in ("z3", "cvc5"):
        cmd += ["--" + obl.backend]
    cmd += ["--json-ui"] + (extra or [])
    return cmd


def parse_json_ui(txt):
    """cbmc --json-ui prints one JSON array; be tolerant to truncation."""
    try:
        return json.loads(txt)
    except Exception:
        pass
    # try to cut at the last complete element
    i = txt.rfind("\n}")
    while i > 0:
        try:
            return json.loads(txt[:i + 2] + "\n]")
        except Exception:
            i = txt.rfind("\n}", 0, i)
    return None


def run_paths_prepass(obl):
    """Path-wise symbolic execution, stopping at the first failing path. Returns None if every path verified (the ordinary run then
    re-decides everything in one formula and checks the witness), or a FAIL Result carrying the counterexample trace."""
    res = Result(obl)
    jobdir = os.path.join(WORK, "%d_%s_paths" % (os.getpid(), obl.key()))
    shutil.rmtree(jobdir, ignore_errors=True)
    os.makedirs(jobdir)
    t0 = time.time()
    o2 = Obl(obl.name, obl.harness, dict(obl.defines, VF_NO_WITNESS=1), obl.variant, gen_src=obl.gen_src, extra_src=obl.extra_src)
    try:
        binary = compile_harness(o2, jobdir)
        cmd = [c for c in cbmc_cmd(obl, binary, ["--paths", "lifo", "--stop-on-fail"])]
        rc, out, err, to, wall = _run(cmd, obl.timeout, obl.mem_gb)
    finally:
        shutil.rmtree(jobdir, ignore_errors=True)
    res.wall = time.time() - t0
    if to:
        res.status = "TIMEOUT"; res.msg = "path-wise pre-pass exceeded %ds" % obl.timeout
        return res
    js = parse_json_ui(out)
    if js is None or "ran out of memory" in out or "bad_alloc" in err:
        res.status = "OOM" if ("memory" in out or "bad_alloc" in err) else "ERROR"; res.msg = out[-800:] + err[-400:]
        return res
    status = None
    for el in js:
        if isinstance(el, dict) and "cProverStatus" in el:
            status = el["cProverStatus"]
        if isinstance(el, dict) and el.get("status") == "failed" and "trace" in el:
            loc = {}
            for st in reversed(el["trace"]):
                if st.get("sourceLocation", {}).get("file"):
                    loc = st["sourceLocation"]; break
            p = {"property": el.get("property", ""), "description": el.get("description", ""), "status": "FAILURE", "sourceLocation": loc}
            obl._traces[p["property"]] = el["trace"]
            if "unwinding assertion" in p["description"]:
                res.unwinding_failed.append(p)
            else:
                res.failed.append(p)
    if status == "success":
        return None
    if res.failed or res.unwinding_failed:
        res.status = "FAIL"; res.nprops = 1
        return res
    res.status = "ERROR"; res.msg = "path-wise pre-pass: no verdict\n" + out[-600:]
    return res


def run_obl(obl, want_trace_for=None):
    if obl.paths_first and not want_trace_for:
        pre = run_paths_prepass(obl)
        if pre is not None:
            return pre
    res = Result(obl)
    jobdir = os.path.join(WORK, "%d_%s" % (os.getpid(), obl.key()))
    shutil.rmtree(jobdir, ignore_errors=True)
    os.makedirs(jobdir)
    res.jobdir = jobdir
    t0 = time.time()
    try:
        binary = compile_harness(obl, jobdir)
        if obl.pipeline == "dfcc":
            binary = dfcc_instrument(obl, binary, jobdir)
    except BuildError as e:
        res.status = "ERROR"
        res.msg = str(e)[-3000:]
        res.wall = time.time() - t0
        return res
    extra = []
    if want_trace_for:
        extra = ["--trace", "--property", want_trace_for]
    cmd = cbmc_cmd(obl, binary, extra)
    res.cmd = " ".join(cmd)
    rc, out, err, to, wall = _run(cmd, obl.timeout, obl.mem_gb)
    res.wall = time.time() - t0
    if to:
        res.status = "TIMEOUT"
        res.msg = "cbmc exceeded %ds" % obl.timeout
        return res
    js = parse_json_ui(out)
    if "ran out of memory" in out or "Out of memory" in out or "bad_alloc" in out or "bad_alloc" in err:
        # cbmc --json-ui still prints a result array after the solver runs out of memory; its statuses are meaningless
        res.status = "OOM"
        res.msg = "solver ran out of memory under the %d GB cap" % obl.mem_gb
        return res
    if js is None:
        res.status = "OOM" if ("bad_alloc" in err or "bad_alloc" in out or "Out of memory" in out or rc in (-9, -6, 134, 137)) else "ERROR"
        res.msg = (out[-1500:] + "\n" + err[-1500:])
        return res
    props = None
    errors = []
    for el in js:
        if not isinstance(el, dict):
            continue
        if "result" in el:
            props = el["result"]
        if el.get("messageType") == "ERROR":
            errors.append(el.get("messageText", ""))
        mt = el.get("messageText", "")
        if el.get("messageType") == "STATUS-MESSAGE":
            m = re.search(r"Runtime Symex: ([0-9.e+-]+)s", mt)
            if m:
                res.symex_s += float(m.group(1))
            m = re.search(r"Runtime (Solver|decision procedure): ([0-9.e+-]+)s", mt)
            if m:
                res.solver_s += float(m.group(2))
            m = re.match(r"Generated (\d+) VCC\(s\), (\d+) remaining", mt)
            if m:
                res.vcc = int(m.group(2))
    if props is None:
        res.status = "OOM" if ("bad_alloc" in err or "bad_alloc" in out or rc in (-9, -6, 134, 137)) else "ERROR"
        res.msg = ("; ".join(errors) or out[-1500:]) + "\n" + err[-800:]
        return res
    res.nprops = len(props)
    witness_failed = False
    witness_seen = False
    for p in props:
        desc = p.get("description", "")
        name = p.get("property", "")
        is_witness = desc.startswith("VF_WITNESS")
        if is_witness:
            witness_seen = True
        st = p.get("status")
        if st in ("FAILURE", "FAILED"):
            if is_witness:
                witness_failed = True
            elif "unwinding assertion" in desc or ".unwind." in name or "recursion unwinding" in desc:
                res.unwinding_failed.append(p)
            else:
                res.failed.append(p)
        elif st in ("SUCCESS",):
            pass
        else:
            if not is_witness:
                res.failed.append(p)   # UNKNOWN / ERROR statuses are never a pass
    if res.failed or res.unwinding_failed:
        res.status = "FAIL"
    elif not obl.no_witness and not witness_failed:
        res.status = "VACUOUS"
        res.msg = "witness assertion %s" % ("not present in reachable code" if not witness_seen else "was proved unreachable")
    else:
        res.status = "PASS"
    return res


def dfcc_instrument(obl, binary, jobdir):
    d = obl.dfcc
    out = os.path.join(jobdir, "h_dfcc.gb")
    cmd = ["goto-instrument", "--dfcc", "main"]
    for f in d.get("enforce", []):
        cmd += ["--enforce-contract", f]
    for f in d.get("replace", []):
        cmd += ["--replace-call-with-contract", f]
    cmd += d.get("extra", [])
    cmd += [binary, out]
    rc, o, e, to, wall = _run(cmd, obl.timeout, obl.mem_gb)
    if to or rc != 0 or not os.path.exists(out):
        raise BuildError("goto-instrument --dfcc failed (rc=%s timeout=%s):\n%s\n%s" % (rc, to, o[-2000:], e[-2000:]))
    return out


# ----------------------------------------------------------------------------------------------
# counterexample extraction + native replay
# ----------------------------------------------------------------------------------------------
def extract_inputs(trace):
    """All harness inputs go through vf.h's in_*() helpers, which log every value to the scalar VF_IN.
    The replay sequence is the sequence of assignments to VF_IN in the trace (after static init)."""
    vals = []
    for st in trace:
        if st.get("stepType") != "assignment":
            continue
        if st.get("lhs") != "VF_IN":
            continue
        if st.get("hidden") and st.get("sourceLocation", {}).get("function") in (None, "__CPROVER_initialize"):
            continue
        fn = st.get("sourceLocation", {}).get("function", "")
        if fn == "__CPROVER_initialize":
            continue
        v = st.get("value", {})
        b = v.get("binary")
        if b is not None:
            vals.append(int(b, 2))
        else:
            try:
                vals.append(int(v.get("data", "0")))
            except Exception:
                vals.append(0)
    return vals


def get_trace(obl, prop_name):
    o2 = obl
    r = Result(obl)
    jobdir = os.path.join(WORK, "%d_%s_tr" % (os.getpid(), obl.key()))
    shutil.rmtree(jobdir, ignore_errors=True)
    os.makedirs(jobdir)
    binary = compile_harness(obl, jobdir)
    if obl.pipeline == "dfcc":
        binary = dfcc_instrument(obl, binary, jobdir)
    cmd = cbmc_cmd(obl, binary, ["--trace", "--property", prop_name])
    rc, out, err, to, wall = _run(cmd, obl.timeout * 2, obl.mem_gb)
    shutil.rmtree(jobdir, ignore_errors=True)
    js = parse_json_ui(out)
    if not js:
        return None
    for el in js:
        if isinstance(el, dict) and "result" in el:
            for p in el["result"]:
                if p.get("property") == prop_name and "trace" in p:
                    return p["trace"]
    return None


def native_build(obl, outdir, sanitize=True):
    """The same harness source compiled natively with gcc against the real sources (no CBMC)."""
    flags, stack, noalloc = variant_spec(obl.variant)
    cfg = os.path.join(outdir, "cfg")
    gen_config(cfg, stack)
    srcs = [os.path.join(HARNESS, obl.harness)] + [os.path.join(HARNESS, s) for s in obl.extra_src]
    for fn, content in (obl.gen_src or {}).items():
        p = os.path.join(outdir, fn)
        open(p, "w").write(content)
        if fn.endswith(".c"):
            srcs.append(p)
    srcs.append(os.path.join(HARNESS, "native_main.c"))
    libsrcs = [f for f in src_files() if not (noalloc and os.path.basename(f) == "allocators.c")]
    exe = os.path.join(outdir, "replay_exe")
    san = ["-fsanitize=address,undefined", "-fno-sanitize-recover=undefined", "-fno-omit-frame-pointer"] if sanitize else []
    cmd = ["gcc", "-std=gnu99", "-g", "-O0", "-w", "-DVERIF_NATIVE", "-DEIGHT_BYTE_SIZE_T", "-D_CBOR_HAS_BUILTIN_UNREACHABLE",
           "-I" + SRC, "-I" + cfg, "-I" + HARNESS, "-I" + outdir] + flags + define_flags(obl.defines) + san + srcs + libsrcs + ["-lm", "-o", exe]
    r = subprocess.run(cmd, stdout=subprocess.PIPE, stderr=subprocess.STDOUT)
    if r.returncode != 0:
        raise BuildError("native build failed:\n" + r.stdout.decode()[-3000:])
    return exe


def replay(check_id, obl, failed_prop):
    """Returns dict(confirmed=bool, how=str, path=replay file). Confirmed means the native gcc+ASan/UBSan build of
    the same harness on the same inputs fails (assert/abort, sanitizer report, crash or hang)."""
    os.makedirs(REPLAYS, exist_ok=True)
    pname = failed_prop.get("property", "")
    info = {"confirmed": False, "how": "", "path": None, "property": pname,
            "description": failed_prop.get("description", ""), "location": failed_prop.get("sourceLocation", {})}
    try:
        trace = obl._traces.get(pname) or get_trace(obl, pname)
    except BuildError as e:
        info["how"] = "trace build error: %s" % e
        return info
    if trace is None:
        info["how"] = "no trace obtained"
        return info
    vals = extract_inputs(trace)
    h = hashlib.sha1(json.dumps([obl.name, pname, vals]).encode()).hexdigest()[:10]
    path = os.path.join(REPLAYS, "%s-%s.json" % (check_id, h))
    info["path"] = path
    rec = {"property_id": check_id, "obligation": obl.name, "harness": obl.harness, "defines": obl.defines,
           "variant": obl.variant, "gen_src": obl.gen_src, "extra_src": obl.extra_src, "failed_property": pname,
           "description": failed_prop.get("description", ""), "location": failed_prop.get("sourceLocation", {}),
           "inputs": vals}
    json.dump(rec, open(path, "w"), indent=1)
    out = replay_file(path)
    if not out.get("confirmed") and "ran clean" in out.get("how", "") and obl.pipeline == "dfcc":
        # DFCC replaces recursive callees by their contracts, so values *returned* by those callees are unconstrained in the model and
        # do not appear among the harness inputs. Concretisation search: re-run the real code with the don't-care inputs (zeros in the
        # trace) set to other values; a native failure on any of them is a genuine failure of the real code on that input.
        for label, f in (("zeros->1", lambda v: 1 if v == 0 else v), ("zeros->3", lambda v: 3 if v == 0 else v), ("all->1", lambda v: 1)):
            rec2 = dict(rec, inputs=[f(v) for v in vals])
            json.dump(rec2, open(path, "w"), indent=1)
            out2 = replay_file(path)
            if out2.get("confirmed"):
                out2["how"] = out2.get("how", "") + " [inputs concretised: %s]" % label
                out, rec = out2, rec2
                break
        else:
            json.dump(rec, open(path, "w"), indent=1)
    info.update(out)
    rec["native"] = out
    json.dump(rec, open(path, "w"), indent=1)
    return info


def replay_blind(check_id, obl, failed_prop):
    """For failed properties that carry no trace (CBMC's 'no body for callee f': the model cannot vouch for code that calls an unmodelled
    function): run the real code natively on a few fixed input vectors. A native failure is a genuine failure of the real code under the
    harness assumptions; a clean run proves nothing and is reported as such."""
    os.makedirs(REPLAYS, exist_ok=True)
    pname = failed_prop.get("property", "")
    info = {"confirmed": False, "how": "", "path": None, "property": pname, "description": failed_prop.get("description", ""), "location": failed_prop.get("sourceLocation", {})}
    h = hashlib.sha1(json.dumps([obl.name, pname, "blind"]).encode()).hexdigest()[:10]
    path = os.path.join(REPLAYS, "%s-%s.json" % (check_id, h))
    for label, vals in (("all inputs 0", []), ("all inputs 1", [1] * 4096), ("all inputs 0x41", [0x41] * 4096), ("all inputs 0xff", [0xff] * 4096)):
        rec = {"property_id": check_id, "obligation": obl.name, "harness": obl.harness, "defines": obl.defines, "variant": obl.variant, "gen_src": obl.gen_src,
               "extra_src": obl.extra_src, "failed_property": pname, "description": failed_prop.get("description", ""), "location": failed_prop.get("sourceLocation", {}), "inputs": vals}
        json.dump(rec, open(path, "w"), indent=1)
        out = replay_file(path)
        if out.get("confirmed"):
            out["how"] = out.get("how", "") + " [no solver trace for this property; fixed input vector: %s]" % label
            rec["native"] = out
            json.dump(rec, open(path, "w"), indent=1)
            info.update(out)
            info["path"] = path
            return info
    info["how"] = "native runs on fixed input vectors ran clean"
    info["path"] = path
    return info


def replay_file(path):
    rec = json.load(open(path))
    obl = Obl(rec["obligation"], rec["harness"], rec["defines"], rec["variant"], gen_src=rec.get("gen_src"),
              extra_src=rec.get("extra_src"))
    d = os.path.join(WORK, "replay_%d_%s" % (os.getpid(), hashlib.sha1(path.encode()).hexdigest()[:8]))
    shutil.rmtree(d, ignore_errors=True)
    os.makedirs(d)
    try:
        try:
            exe = native_build(obl, d)
        except BuildError as e:
            return {"confirmed": False, "how": "native build failed: " + str(e)[-500:]}
        inp = os.path.join(d, "inputs.txt")
        open(inp, "w").write("\n".join(str(v) for v in rec["inputs"]) + "\n")
        env = dict(os.environ, ASAN_OPTIONS="detect_leaks=1:abort_on_error=0:exitcode=99", UBSAN_OPTIONS="print_stacktrace=1:halt_on_error=1:exitcode=98",
                   VF_INPUTS=inp)
        try:
            p = subprocess.run([exe], stdout=subprocess.PIPE, stderr=subprocess.PIPE, env=env, timeout=60)
            rc, so, se = p.returncode, p.stdout.decode(errors="replace"), p.stderr.decode(errors="replace")
        except subprocess.TimeoutExpired:
            return {"confirmed": True, "how": "native replay did not terminate within 60 s (hang)"}
        tail = (se[-1200:] + so[-300:]).strip()
        if rc == 0:
            return {"confirmed": False, "how": "native replay ran clean (exit 0)"}
        if rc == 77:
            return {"confirmed": False, "how": "native replay left the assumed input space (assumption violated): " + tail[-300:]}
        how = "exit %d" % rc
        if "AddressSanitizer" in se or "LeakSanitizer" in se:
            m = re.search(r"(AddressSanitizer|LeakSanitizer): ([^\n]*)", se)
            how = "sanitizer: " + (m.group(0) if m else "ASan")
        elif "runtime error" in se:
            m = re.search(r"runtime error: [^\n]*", se)
            how = "UBSan " + (m.group(0) if m else "")
        elif "Assertion" in se or "VF_ASSERT" in se:
            m = re.search(r"[^\n]*(Assertion|VF_ASSERT)[^\n]*", se)
            how = "assertion: " + (m.group(0) if m else "")
        elif rc < 0:
            how = "signal %d" % (-rc)
        return {"confirmed": True, "how": how, "stderr_tail": tail[-600:]}
    finally:
        shutil.rmtree(d, ignore_errors=True)


# ----------------------------------------------------------------------------------------------
# pool
# ----------------------------------------------------------------------------------------------
def run_all(obls, jobs=None, budget_s=None):
    """Runs obligations in a pool, heavy ones first. Returns list of Result in input order."""
    jobs = jobs or JOBS
    os.makedirs(WORK, exist_ok=True)
    # build libs up front (serially, cached)
    for v in sorted(set(o.variant for o in obls)):
        build_lib(v)
    results = [None] * len(obls)
    order = sorted(range(len(obls)), key=lambda i: -(obls[i].cost if obls[i].cost is not None else obls[i].timeout))
    sem_mem = threading.Semaphore(jobs)
    t0 = time.time()

    def work(i):
        o = obls[i]
        r = run_obl(o)
        if r.status == "FAIL" and not r.failed and r.unwinding_failed:
            # only unwinding assertions failed: the stated bound was too small for this code (e.g. a refactoring that changed a loop's
            # trip count). Retry once with every bound quadrupled; a loop that still does not terminate within that is then replayed
            # natively (a hang is a violation of the termination clause, a clean run leaves the obligation undischarged).
            import copy
            o4 = copy.copy(o)
            o4.unwind = None if o.unwind is None else o.unwind * 4
            o4.unwindset = ["%s:%d" % (u.rsplit(":", 1)[0], int(u.rsplit(":", 1)[1]) * 4) for u in o.unwindset]
            o4.timeout = o.timeout * 2
            o4._traces = {}
            r4 = run_obl(o4)
            if r4.jobdir:
                shutil.rmtree(r4.jobdir, ignore_errors=True)
            r4.wall += r.wall
            if not (r4.status == "FAIL" and not r4.failed):
                r4.msg = (r4.msg + " [bounds x4 after an unwinding assertion failed at the stated bounds]").strip()
                r4.obl = o
                r = r4
        if r.status in ("TIMEOUT", "OOM") and o.pipeline == "cbmc" and not o.paths_first:
            # A defect that corrupts the heap can make the single monolithic formula blow up (garbage pointers are followed to every
            # object). Fallback: path-wise symbolic execution stopping at the first failing path. A failure found this way is a genuine
            # counterexample (it is replayed natively like any other); if the fallback finds nothing the obligation stays undischarged.
            saved = o.timeout
            o.timeout = min(saved, 300)
            try:
                pre = run_paths_prepass(o)
            finally:
                o.timeout = saved
            if pre is not None and pre.status == "FAIL":
                pre.wall += r.wall
                pre.msg = "found by the path-wise fallback after the monolithic run ended in %s" % r.status
                r = pre
        if r.jobdir:
            shutil.rmtree(r.jobdir, ignore_errors=True)
        log("  [%-7s] %-58s %6.1fs props=%d %s" % (r.status, o.name[:58], r.wall, r.nprops,
                                                ("; ".join(p.get("description", "")[:60] for p in (r.failed + r.unwinding_failed)[:2]) if r.status == "FAIL" else r.msg[:100].replace("\n", " "))))
        return i, r

    with cf.ThreadPoolExecutor(max_workers=jobs) as ex:
        for i, r in ex.map(work, order):
            results[i] = r
    return results
