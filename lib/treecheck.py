"""Batching of skeleton cases into CBMC obligations (tree layer)."""
import skeleton as sk
from vf import Obl

_fam_cache = {}


def family(tier, limit=2048):
    key = (tier, limit)
    if key not in _fam_cache:
        _fam_cache[key] = sk.family(tier, limit)
    return _fam_cache[key]


def batches(fam, weight_cap=40, max_cases=6, truncations=True):
    """Greedy batches bounded by estimated symex work. Measured: symex time per case grows with the number of cases in one
    process (1 case 0.8 s, 24 cases 2.2 s each), so batches stay small; ~1.5 s per process is start-up."""
    out, cur, w = [], [], 0
    for s in fam:
        n = len(s["bytes"])
        cost = 2 + n // 4
        if truncations:
            cost += (len(s.get("truncs", [])) - 1) * (1 + n // 8)
        if s["outcome"].ok:
            cost += 2 + n // 3
        if cur and (w + cost > weight_cap or len(cur) >= max_cases):
            out.append(cur)
            cur, w = [], 0
        cur.append(s)
        w += cost
    if cur:
        out.append(cur)
    return out


def batch_obligations(prefix, fam, harness, defines, variant="dbg", truncations=True, weight_cap=40, max_cases=6, limit=2048, unwindset=None, paths_first=False,
                      timeout=600, leak=True, funcs=None, desc="", extra_unwind=4, flags=None, mem_gb=8, ptrcheck=True):
    obls = []
    for bi, b in enumerate(batches(fam, weight_cap, max_cases, truncations)):
        maxn = max(len(s["bytes"]) for s in b)
        src = sk.c_cases(b, limit, truncations)
        obls.append(Obl("%s_batch%03d_%s" % (prefix, bi, variant), harness, defines, variant=variant, unwind=maxn + extra_unwind + int(defines.get("P_SUFFIX", 0) or 0),
                        unwindset=unwindset if unwindset is not None else (tight_unwindset(b) if ptrcheck else ["_cbor_highest_bit.0:66"]),
                        paths_first=paths_first, gen_src={"cases.h": src}, timeout=timeout, leak=leak, funcs=funcs or [], mem_gb=mem_gb, flags=flags or [], ptrcheck=ptrcheck,
                        desc=desc, bounds="%d skeletons, <= %d bytes each%s; all data bytes symbolic" % (len(b), maxn, ", every truncation offset" if truncations else ""),
                        sample={"skeletons": [{"heads": s["name"], "bytes": " ".join("??" if x < 0 else "%02x" % x for x in s["bytes"]), "expected": repr(s["outcome"])} for s in b[:3]]}))
    return obls


def tree_family(tier, limit=2048):
    """Trees of the C03 space: every accepted skeleton (decoder-obtained) + the construction programs."""
    fam = [s for s in family(tier, limit) if s["outcome"].ok]
    return fam + sk.construction_family(tier)


def tree_obligations(prefix, fam, defines, variant="dbg", weight_cap=120, max_cases=16, timeout=600, leak=True, funcs=None, desc="", ptrcheck=False, flags=None, mem_gb=8, extra_unwind=6):
    obls = []
    for bi, b in enumerate(batches(fam, weight_cap, max_cases, False)):
        maxn = max(len(s["bytes"]) for s in b)
        maxnodes = max(len(s["outcome"].nodes) for s in b)
        src = sk.c_trees(b)
        obls.append(Obl("%s_batch%03d_%s" % (prefix, bi, variant), "h_ser.c", defines, variant=variant, unwind=max(maxn + 9 * maxnodes + 8, 52),
                        unwindset=tight_unwindset(b) if ptrcheck else ["_cbor_highest_bit.0:66"],
                        gen_src={"trees.h": src}, timeout=timeout, leak=leak, funcs=funcs or [], mem_gb=mem_gb, flags=flags or [], ptrcheck=ptrcheck,
                        desc=desc, bounds="%d trees (<= %d nodes each); all scalar values and payload bytes symbolic" % (len(b), maxnodes),
                        sample={"trees": [{"name": s["name"], "nodes": len(s["outcome"].nodes), "built_by": "construction API" if s.get("built") else "cbor_load"} for s in b[:4]]}))
    return obls


# only functions that exist in every tree-layer binary (cbmc rejects an unwindset entry naming a function that is not in the goto model)
REC_FUNCS = ["cbor_decref", "cbor_copy", "cbor_serialize", "cbor_serialized_size", "_cbor_nested_describe", "_cbor_builder_append", "cbor_serialize_bytestring", "cbor_serialize_string"]
REC_LOOPS = ["cbor_decref.0", "cbor_decref.1", "cbor_decref.2", "cbor_decref.3", "cbor_copy.0", "cbor_copy.1", "cbor_copy.2", "cbor_copy.3",
             "cbor_serialized_size.0", "cbor_serialized_size.1", "cbor_serialized_size.2", "cbor_serialized_size.3", "cbor_serialize_map.0", "cbor_serialize_array.0",
             "cbor_serialize_string.0", "cbor_serialize_bytestring.0", "_cbor_nested_describe.0", "_cbor_nested_describe.1", "_cbor_nested_describe.2", "_cbor_nested_describe.3", "_cbor_nested_describe.4"]


def tight_unwindset(batch):
    """Per-function recursion bounds and per-loop bounds for the recursive tree functions, derived from the batch's concrete shapes.
    On a correct tree they are never reached (unwinding assertions would say so); on a tree corrupted by a defect they keep symex from
    unrolling garbage sizes to the uniform bound, so the failed memory-safety property is reported instead of a timeout."""
    D = max([s["outcome"].depth for s in batch] + [max((len(s["outcome"].nodes) for s in batch), default=1) if any(s.get("built") for s in batch) else 0]) + 3
    C = max([x["n"] for s in batch for x in s["outcome"].nodes if x["kind"] not in (sk.X_UINT, sk.X_NEGINT, sk.X_TAG, sk.X_CTRL)] + [1]) + 2
    return ["%s:%d" % (f, D) for f in REC_FUNCS] + ["%s:%d" % (l, C) for l in REC_LOOPS] + ["_cbor_highest_bit.0:66"]


def large_obligations(prefix, defines, kind, variant="dbg", ptrcheck=False, funcs=None, desc="", timeout=900, select=None):
    """One obligation per member of the large-shape family (lib/skeleton.py enum_large): kind 'load' -> h_load.c, 'tree' -> h_ser.c."""
    obls = []
    for s in sk.enum_large():
        if select and not select(s):
            continue
        n, nodes = len(s["bytes"]), len(s["outcome"].nodes)
        d = dict(defines)
        if kind == "tree":
            d["MAXADDR"] = 2 * nodes + 8
            src = {"trees.h": sk.c_trees([s])}
            harness, unwind = "h_ser.c", max(n + 9 * nodes + 12, 2 * nodes + 12, 60)
        else:
            src = {"cases.h": sk.c_cases([s], 2048, True)}
            harness, unwind = "h_load.c", n + 8 + int(d.get("P_SUFFIX", 0) or 0)
        obls.append(Obl("%s_%s_%s" % (prefix, s["name"].replace(":", "_"), variant), harness, d, variant=variant, unwind=unwind,
                        unwindset=tight_unwindset([s]) if ptrcheck else ["_cbor_highest_bit.0:66"], gen_src=src, timeout=timeout, leak=True, funcs=funcs or [],
                        flags=["--max-field-sensitivity-array-size", "700"], drop_base=["--max-field-sensitivity-array-size", "256"], ptrcheck=ptrcheck, cost=20000 + n * nodes,
                        desc=desc, bounds="1 large shape: %d bytes, %d nodes; data symbolic where the shape says so" % (n, nodes), sample={"shape": s["name"], "bytes": n, "nodes": nodes}))
    return obls
