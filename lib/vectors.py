"""Validate the reference decoder against the repository's own test vectors: every byte array literal in /repo/test/*.c is pushed
through lib/skeleton.py:ref_load and through the real cbor_load (native build of the current sources); accept/reject, bytes read,
error code and position must agree (position/code within the reference's allowed set)."""
import glob
import json
import os
import re
import shutil
import subprocess
import tempfile
import skeleton as sk
import vf


def scrape():
    out = []
    for f in sorted(glob.glob(os.path.join(vf.REPO, "test", "*.c"))):
        txt = open(f).read()
        for m in re.finditer(r"unsigned char\s+(\w+)\s*\[\s*\d*\s*\]\s*=\s*\{([^}]*)\}", txt):
            body = re.sub(r"/\*.*?\*/|//[^\n]*", "", m.group(2), flags=re.S)
            vals = []
            ok = True
            for tokn in body.replace("\n", " ").split(","):
                tokn = tokn.strip()
                if not tokn:
                    continue
                try:
                    v = int(tokn, 0)
                except ValueError:
                    ok = False
                    break
                if not 0 <= v <= 255:
                    ok = False
                    break
                vals.append(v)
            if ok and vals:
                out.append((os.path.basename(f) + ":" + m.group(1), vals))
    return out


def run():
    vecs = scrape()
    # every vector, plus every proper prefix of the short ones (truncations)
    cases = []
    for name, v in vecs:
        cases.append((name, v))
        if len(v) <= 24:
            for t in range(1, len(v)):
                cases.append(("%s[:%d]" % (name, t), v[:t]))
    d = tempfile.mkdtemp(prefix="vectors_")
    try:
        cfg = os.path.join(d, "cfg")
        vf.gen_config(cfg)
        src = ['#include <stdio.h>', '#include <stdlib.h>', '#include <string.h>', '#include "cbor.h"', "int main(void){"]
        for i, (name, v) in enumerate(cases):
            src.append("{ static const unsigned char b[] = {%s}; unsigned char* p = malloc(%d); memcpy(p, b, %d); struct cbor_load_result r; cbor_item_t* it = cbor_load(p, %d, &r); free(p);"
                       " printf(\"%d %%d %%zu %%d %%zu\\n\", it != NULL, r.read, (int)r.error.code, r.error.position); if (it) cbor_decref(&it); }" % (",".join(map(str, v)), len(v), len(v), len(v), i))
        src.append("return 0; }")
        open(os.path.join(d, "v.c"), "w").write("\n".join(src))
        exe = os.path.join(d, "v")
        r = subprocess.run(["gcc", "-std=gnu99", "-O0", "-w", "-DEIGHT_BYTE_SIZE_T", "-I" + vf.SRC, "-I" + cfg, os.path.join(d, "v.c")] + vf.src_files() + ["-lm", "-o", exe],
                           stdout=subprocess.PIPE, stderr=subprocess.STDOUT)
        if r.returncode != 0:
            return {"error": r.stdout.decode()[-500:]}
        # address space capped at 1 GiB: vectors that declare giant containers must be refused by the allocator at once (MEMERROR), not
        # served lazily by the kernel and then zero-filled for minutes; the reference uses the matching threshold
        import resource
        def lim():
            resource.setrlimit(resource.RLIMIT_AS, (1 << 30, 1 << 30))
        p = subprocess.run([exe], stdout=subprocess.PIPE, stderr=subprocess.PIPE, timeout=300, preexec_fn=lim)
        lines = p.stdout.decode().splitlines()
        mism = []
        if p.returncode != 0:
            mism.append({"vector": "(native run)", "detail": p.stderr.decode()[-400:]})
        for ln in lines:
            i, ok, read, code, pos = [int(x) for x in ln.split()]
            name, v = cases[i]
            o = sk.ref_load(list(v), 2048, 1 << 29)
            if o.ok != bool(ok) or (o.ok and o.read != read) or (not o.ok and (code, pos) not in o.allowed):
                mism.append({"vector": name, "bytes": " ".join("%02x" % b for b in v), "library": {"ok": ok, "read": read, "code": code, "position": pos}, "reference": repr(o)})
        return {"vectors": len(vecs), "cases_with_truncations": len(cases), "mismatches": mism}
    finally:
        shutil.rmtree(d, ignore_errors=True)


if __name__ == "__main__":
    print(json.dumps(run(), indent=1)[:3000])
