#!/usr/bin/env python3
"""Control skeletons for the item-tree layer.

A skeleton is a byte template: concrete bytes for everything that determines control flow (initial bytes, lengths, counts)
and -1 (symbolic) for data (integer/float/tag argument bytes, string payload). This module

  * builds tokens and enumerates the family S(k) of all live head sequences of <= k heads (plus the leaf-variety family L),
  * contains the item-level reference decoder written from RFC 8949 section 3 / Appendix C plus libcbor's documented profile
    (simple values 20..23 only, nesting limit L), which classifies a template (and each truncation of it) as
    accepted(read, tree) or rejected(allowed (code, position) set),
  * emits the C tables (cases.h) that the harnesses in /verif/harness compare the real library against.
"""
import itertools

SYM = -1

# error codes as in cbor/data.h (cbor_error_code)
E_NONE, E_NOTENOUGHDATA, E_NODATA, E_MALFORMATED, E_MEMERROR, E_SYNTAXERROR = 0, 1, 2, 3, 4, 5
ERRNAME = {0: "NONE", 1: "NOTENOUGHDATA", 2: "NODATA", 3: "MALFORMATED", 4: "MEMERROR", 5: "SYNTAXERROR"}

# node kinds (must match tree.h)
X_UINT, X_NEGINT, X_BSTR, X_TSTR, X_IBSTR, X_ITSTR, X_ARR, X_IARR, X_MAP, X_IMAP, X_TAG, X_F16, X_F32, X_F64, X_CTRL = range(15)
XNAME = ["X_UINT", "X_NEGINT", "X_BSTR", "X_TSTR", "X_IBSTR", "X_ITSTR", "X_ARR", "X_IARR", "X_MAP", "X_IMAP", "X_TAG",
         "X_F16", "X_F32", "X_F64", "X_CTRL"]


# ----------------------------------------------------------------------------------------------
# tokens
# ----------------------------------------------------------------------------------------------
def be(v, n):
    return [(v >> (8 * (n - 1 - i))) & 0xff for i in range(n)]


def head(mt, value, form):
    """head with a *concrete* argument in the given form (0 = immediate, else 1/2/4/8 argument bytes)"""
    if form == 0:
        assert value < 24
        return [(mt << 5) | value]
    ai = {1: 24, 2: 25, 4: 26, 8: 27}[form]
    return [(mt << 5) | ai] + be(value, form)


def head_sym(mt, form, imm=0):
    """head whose argument is data (symbolic); form 0 uses the concrete immediate imm"""
    if form == 0:
        return [(mt << 5) | imm]
    ai = {1: 24, 2: 25, 4: 26, 8: 27}[form]
    return [(mt << 5) | ai] + [SYM] * form


LEAVES = {
    "uint_imm0": [0x00], "uint_imm23": [0x17], "uint8": head_sym(0, 1), "uint16": head_sym(0, 2), "uint32": head_sym(0, 4), "uint64": head_sym(0, 8),
    "negint_imm0": [0x20], "negint_imm23": [0x37], "negint8": head_sym(1, 1), "negint16": head_sym(1, 2), "negint32": head_sym(1, 4), "negint64": head_sym(1, 8),
    "f16": [0xf9, SYM, SYM], "f32": [0xfa] + [SYM] * 4, "f64": [0xfb] + [SYM] * 8,
    "false": [0xf4], "true": [0xf5], "null": [0xf6], "undef": [0xf7],
}
LEAF_NAMES = list(LEAVES)
RESERVED = [0x1c, 0x1f, 0x3c, 0x3f, 0x5c, 0x5e, 0x7c, 0x7e, 0x9c, 0x9e, 0xbc, 0xbe, 0xdc, 0xdf, 0xe0, 0xf3, 0xf8, 0xfc, 0xfe]
FORMS = [0, 1, 2, 4, 8]


def tok(kind, **kw):
    d = dict(kind=kind)
    d.update(kw)
    return d


def tok_bytes(t):
    k = t["kind"]
    f = t.get("form", 0)
    if k == "leaf":
        return list(LEAVES[t["leaf"]])
    if k == "bstr":
        return head(2, t["len"], f) + [SYM] * t["len"]
    if k == "tstr":
        return head(3, t["len"], f) + [SYM] * t["len"]
    if k == "ibstr":
        return [0x5f]
    if k == "itstr":
        return [0x7f]
    if k == "arr":
        return head(4, t["n"], f)
    if k == "iarr":
        return [0x9f]
    if k == "map":
        return head(5, t["n"], f)
    if k == "imap":
        return [0xbf]
    if k == "tag":
        return head_sym(6, f, imm=t.get("imm", 1))
    if k == "break":
        return [0xff]
    if k == "reserved":
        return [t["byte"]]
    if k == "raw":
        return list(t["bytes"])
    raise ValueError(k)


def tok_name(t):
    k = t["kind"]
    f = t.get("form", 0)
    fs = "" if f == 0 else "/%d" % f
    if k == "leaf":
        return t["leaf"]
    if k in ("bstr", "tstr"):
        return "%s(%d)%s" % (k, t["len"], fs)
    if k in ("arr", "map"):
        return "%s(%d)%s" % (k, t["n"], fs)
    if k == "tag":
        return "tag" + fs
    if k == "reserved":
        return "rsv%02x" % t["byte"]
    return k


def seq_bytes(seq):
    out = []
    for t in seq:
        out += tok_bytes(t)
    return out


def seq_name(seq):
    return " ".join(tok_name(t) for t in seq) or "<empty>"


# ----------------------------------------------------------------------------------------------
# reference decoder (item level)
# ----------------------------------------------------------------------------------------------
class Outcome:
    def __init__(self, ok, read=0, nodes=None, allowed=None, depth=0, note=""):
        self.ok = ok
        self.read = read
        self.nodes = nodes or []
        self.allowed = allowed or set()   # set of (code, position)
        self.depth = depth                # maximal number of simultaneously open frames (accepted items)
        self.note = note

    def __repr__(self):
        if self.ok:
            return "OK(read=%d, nodes=%d, depth=%d)" % (self.read, len(self.nodes), self.depth)
        return "ERR(%s)" % ",".join("%s@%d" % (ERRNAME[c], p) for c, p in sorted(self.allowed))


class NeedConcrete(Exception):
    pass


def _byte(bs, i):
    if bs[i] == SYM:
        raise NeedConcrete("control byte at %d is symbolic" % i)
    return bs[i]


MAX_ALLOC = 1 << 40


def ref_load(bs, limit=2048, max_alloc=None):
    """Classify the template bs (list of 0..255 or SYM). Well-formedness per RFC 8949 + libcbor profile."""
    n = len(bs)
    if n == 0:
        return Outcome(False, allowed={(E_NODATA, 0)})
    nodes = []
    stack = []   # frames: dict(kind, remaining, parity, node, poison)
    alts = set()  # eager alternatives accumulated by poisoned openers
    maxdepth = 0
    pos = 0

    def fail(code, p):
        return Outcome(False, allowed={(code, p)} | alts)

    while True:
        p = pos
        if p >= n:
            return fail(E_NOTENOUGHDATA, p)
        ib = _byte(bs, p)
        mt, ai = ib >> 5, ib & 31
        reserved = (28 <= ai <= 30) or (ai == 31 and mt in (0, 1, 6)) or (mt == 7 and (ai < 20 or ai == 24))
        if reserved:
            return fail(E_MALFORMATED, p)
        argn = 0 if ai < 24 else {24: 1, 25: 2, 26: 4, 27: 8}.get(ai, 0)
        if p + 1 + argn > n:
            return fail(E_NOTENOUGHDATA, p)
        is_def_str = mt in (2, 3) and ai != 31
        is_count = mt in (4, 5) and ai != 31
        arg = None
        if is_def_str or is_count:
            arg = ai if ai < 24 else int.from_bytes(bytes(_byte(bs, p + 1 + i) for i in range(argn)), "big")
        end = p + 1 + argn
        if is_def_str:
            if arg > n - end:
                return fail(E_NOTENOUGHDATA, p)
            end += arg
        pos = end
        parent = stack[-1] if stack else None
        in_chunked = parent is not None and parent["kind"] in (X_IBSTR, X_ITSTR)
        is_break = (mt == 7 and ai == 31)

        # ---- break
        if is_break:
            if parent is None or parent["kind"] not in (X_IBSTR, X_ITSTR, X_IARR, X_IMAP) or (parent["kind"] == X_IMAP and parent["parity"] == 1):
                return fail(E_SYNTAXERROR, end)
            fr = stack.pop()
            done = _complete(stack, fr, nodes)
            if fr.get("poison"):
                return Outcome(False, allowed={(E_SYNTAXERROR, end)} | alts)
            r = _propagate(stack, nodes, end, alts)
            if r is not None:
                if r == "done":
                    return Outcome(True, read=end, nodes=nodes, depth=maxdepth)
                return r
            continue

        # ---- build the node
        node = None
        opener = None
        if mt in (0, 1):
            w = 0 if ai < 25 else {25: 1, 26: 2, 27: 3}[ai]
            node = dict(kind=X_UINT if mt == 0 else X_NEGINT, w=w, n=ai if ai < 24 else 0, off=(p + 1) if argn else -1, argw=argn)
        elif is_def_str:
            node = dict(kind=X_BSTR if mt == 2 else X_TSTR, w=0, n=arg, off=p + 1 + argn, argw=0)
        elif mt in (2, 3):
            node = dict(kind=X_IBSTR if mt == 2 else X_ITSTR, w=0, n=0, off=-1, argw=0)
            opener = dict(kind=node["kind"], remaining=None, parity=0)
        elif mt in (4, 5) and ai != 31 and arg * (8 if mt == 4 else 16) > (max_alloc or MAX_ALLOC):
            # the backing store of this definite container cannot exist (its byte size overflows size_t or exceeds anything an allocator grants):
            # the allocation is necessarily refused -> MEMERROR just past this head (property C05, third clause)
            return fail(E_MEMERROR, end)
        elif mt == 4:
            if ai == 31:
                node = dict(kind=X_IARR, w=0, n=0, off=-1, argw=0)
                opener = dict(kind=X_IARR, remaining=None, parity=0)
            else:
                node = dict(kind=X_ARR, w=0, n=arg, off=-1, argw=0)
                if arg > 0:
                    opener = dict(kind=X_ARR, remaining=arg, parity=0)
        elif mt == 5:
            if ai == 31:
                node = dict(kind=X_IMAP, w=0, n=0, off=-1, argw=0)
                opener = dict(kind=X_IMAP, remaining=None, parity=0)
            else:
                node = dict(kind=X_MAP, w=0, n=arg, off=-1, argw=0)
                if arg > 0:
                    opener = dict(kind=X_MAP, remaining=2 * arg, parity=0)
        elif mt == 6:
            node = dict(kind=X_TAG, w=0, n=ai if ai < 24 else 0, off=(p + 1) if argn else -1, argw=argn)
            opener = dict(kind=X_TAG, remaining=1, parity=0)
        else:
            if ai in (20, 21, 22, 23):
                node = dict(kind=X_CTRL, w=0, n=ai, off=-1, argw=0)
            else:
                node = dict(kind={25: X_F16, 26: X_F32, 27: X_F64}[ai], w=0, n=0, off=p + 1, argw=argn)

        # ---- legality where it stands
        if in_chunked:
            same = (node["kind"] == X_BSTR and parent["kind"] == X_IBSTR) or (node["kind"] == X_TSTR and parent["kind"] == X_ITSTR)
            if not same:
                if opener is None:
                    return fail(E_SYNTAXERROR, end)
                # non-chunk item *opened* inside a chunked string: eager SYNTAXERROR here, or reported late
                alts = alts | {(E_SYNTAXERROR, end)}
                opener["poison"] = True

        nodes.append(node)
        idx = len(nodes) - 1
        if opener is not None:
            if len(stack) >= limit:
                return fail(E_MEMERROR, end)
            opener["node"] = idx
            stack.append(opener)
            maxdepth = max(maxdepth, len(stack))
            continue
        # a complete item
        r = _propagate(stack, nodes, end, alts)
        if r is not None:
            if r == "done":
                return Outcome(True, read=end, nodes=nodes, depth=maxdepth)
            return r


def _complete(stack, fr, nodes):
    return True


def _propagate(stack, nodes, end, alts):
    """A complete item has just ended at `end`; hand it to its parent(s). Returns None to continue, 'done', or an Outcome."""
    while True:
        if not stack:
            return "done"
        fr = stack[-1]
        k = fr["kind"]
        if k in (X_IBSTR, X_ITSTR):
            nodes[fr["node"]]["n"] += 1
            return None
        if k == X_IARR:
            nodes[fr["node"]]["n"] += 1
            return None
        if k == X_IMAP:
            fr["parity"] ^= 1
            if fr["parity"] == 0:
                nodes[fr["node"]]["n"] += 1
            return None
        # definite array / map / tag
        fr["remaining"] -= 1
        if fr["remaining"] > 0:
            return None
        stack.pop()
        if fr.get("poison"):
            return Outcome(False, allowed={(E_SYNTAXERROR, end)} | alts)
        # the container itself is now a complete item: continue upwards


# ----------------------------------------------------------------------------------------------
# enumeration
# ----------------------------------------------------------------------------------------------
def classify_live(bs, limit):
    """'complete' | 'error' | 'open' for a byte template that ends on a head boundary."""
    o = ref_load(bs, limit)
    if o.ok:
        return "complete", o
    codes = {c for c, _ in o.allowed}
    if codes == {E_NOTENOUGHDATA} and all(p == len(bs) for _, p in o.allowed):
        return "open", o
    return "error", o


def alphabet(idx, small):
    """Structural alphabet; representatives (leaf kind, reserved byte, argument width form) rotate with idx so that
    across the family every representative appears in many positions."""
    leaf = LEAF_NAMES[idx % len(LEAF_NAMES)]
    form = FORMS[idx % len(FORMS)]
    form2 = FORMS[(idx // 5 + 1) % len(FORMS)]
    rsv = RESERVED[idx % len(RESERVED)]
    a = [tok("leaf", leaf=leaf),
         tok("bstr", len=0), tok("bstr", len=2, form=form),
         tok("tstr", len=0, form=form2), tok("tstr", len=1),
         tok("ibstr"), tok("itstr"),
         tok("arr", n=0, form=form), tok("arr", n=1), tok("arr", n=2, form=form2),
         tok("iarr"),
         tok("map", n=0), tok("map", n=1, form=form),
         tok("imap"),
         tok("tag", form=form2, imm=(idx % 24)),
         tok("break"),
         tok("reserved", byte=rsv)]
    if not small:
        a += [tok("arr", n=3), tok("map", n=2, form=form2), tok("bstr", len=3), tok("tstr", len=3, form=form)]
    return a


def enum_S(k, limit=2048, small=True):
    """All live head sequences of <= k heads: every proper prefix is still open; the sequence itself is complete, an
    error, or still open (= truncated on a head boundary; mid-head truncations are added by the harness loop)."""
    out = []
    counter = [0]

    def rec(seq, depth):
        idx = counter[0]
        for t in alphabet(idx + 7 * depth, small):
            s2 = seq + [t]
            counter[0] += 1
            st, o = classify_live(seq_bytes(s2), limit)
            if st == "open" and depth + 1 < k:
                out.append((s2, "open"))
                rec(s2, depth + 1)
            else:
                out.append((s2, st))
    rec([], 0)
    return out


def enum_L():
    """Leaf variety: every leaf kind in every position (top, array element, map key, map value, tagged, after a chunk)."""
    out = []
    for i, ln in enumerate(LEAF_NAMES):
        lf = tok("leaf", leaf=ln)
        f = FORMS[i % 5]
        out.append([lf])
        out.append([tok("arr", n=2, form=f), lf, tok("leaf", leaf=LEAF_NAMES[(i + 5) % len(LEAF_NAMES)])])
        out.append([tok("iarr"), lf, tok("break")])
        out.append([tok("map", n=1), lf, tok("tstr", len=1)])
        out.append([tok("imap"), tok("bstr", len=1, form=f), lf, tok("break")])
        out.append([tok("tag", form=f, imm=i), lf])
        out.append([tok("ibstr"), tok("bstr", len=1), lf])   # illegal inside a chunked string
    return out


def enum_special():
    """Hand-picked shapes the property texts name explicitly."""
    T = tok
    out = [
        # non-minimal length heads, empty containers at every position
        [T("arr", n=0, form=8)], [T("map", n=0, form=4)], [T("bstr", len=0, form=2)], [T("tstr", len=0, form=8)],
        [T("arr", n=3), T("arr", n=0), T("map", n=0), T("iarr"), T("break")],
        [T("map", n=2), T("ibstr"), T("break"), T("itstr"), T("break"), T("arr", n=0), T("map", n=0)],
        # chunked strings as map keys / values, multi chunk
        [T("imap"), T("itstr"), T("tstr", len=1), T("tstr", len=2), T("break"), T("ibstr"), T("bstr", len=0), T("break"), T("break")],
        # indefinite inside definite and vice versa
        [T("arr", n=2), T("iarr"), T("leaf", leaf="uint8"), T("break"), T("imap"), T("break")],
        [T("iarr"), T("arr", n=1), T("leaf", leaf="f16"), T("map", n=1), T("leaf", leaf="true"), T("leaf", leaf="null"), T("break")],
        # nested tags
        [T("tag", form=1), T("tag", form=8), T("tag", form=0, imm=23), T("leaf", leaf="negint64")],
        # break placement
        [T("imap"), T("leaf", leaf="uint8"), T("break")],
        [T("arr", n=2), T("leaf", leaf="uint8"), T("break")],
        [T("tag", form=0), T("break")],
        # poison: openers inside chunked strings
        [T("ibstr"), T("arr", n=1), T("leaf", leaf="uint8"), T("break")],
        [T("itstr"), T("tag", form=1), T("leaf", leaf="false")],
        [T("ibstr"), T("ibstr"), T("bstr", len=1), T("break"), T("break")],
        [T("itstr"), T("iarr"), T("break"), T("break")],
        [T("ibstr"), T("map", n=1), T("leaf", leaf="uint8"), T("reserved", byte=0x1c)],
        # deeper well-formed item (depth 3)
        [T("iarr"), T("leaf", leaf="uint8"), T("tstr", len=2), T("tag", form=0), T("leaf", leaf="uint64"), T("map", n=1), T("leaf", leaf="f16"),
         T("ibstr"), T("bstr", len=1), T("break"), T("break")],
    ]
    return out


def family(tier, limit=2048):
    """The skeleton family used by the tree-layer checks: list of dict(name, bytes, outcome, toks)."""
    k = 3 if tier == "quick" else 4
    s_all = enum_S(k, limit, small=True)
    if tier == "thorough":
        # S(4) has 15 k members, 10.7 k of them still-open 4-head prefixes. The thorough tier keeps all of S(3), every accepted member of
        # S(4), every 4th rejected and every 16th still-open 4-head member (deterministic stride), so that each check stays within ~20-30 min.
        keep, ce, co = [], 0, 0
        for s_, st in s_all:
            if len(s_) < 4 or st == "complete":
                keep.append(s_)
            elif st == "error":
                ce += 1
                if ce % 4 == 0:
                    keep.append(s_)
            else:
                co += 1
                if co % 16 == 0:
                    keep.append(s_)
        s_seqs = keep
    else:
        s_seqs = [s for s, _ in s_all]
    seqs = [(s, True) for s in s_seqs] + [(s, False) for s in enum_L() + enum_special()]
    seen = set()
    fam = []
    for s, in_S in seqs:
        bs = seq_bytes(s)
        key = tuple(bs)
        if key in seen or len(bs) == 0:
            continue
        seen.add(key)
        n = len(bs)
        if in_S or tier == "quick":
            # (quick tier: also for the variety/special families; the thorough tier truncates those at every offset)
            # every head-boundary prefix of an S(k) member is itself a member, so only offsets inside the last token are new
            last = n - len(tok_bytes(s[-1]))
            truncs = list(range(last + 1, n)) + [n]
            if len(s) == 1 and not fam:
                truncs = [0] + truncs    # the empty input, once
        else:
            truncs = list(range(0, n + 1))
        fam.append(dict(name=seq_name(s), bytes=bs, toks=s, outcome=ref_load(bs, limit), truncs=truncs, in_S=in_S, nheads=len(s),
                        status=classify_live(bs, limit)[0], k=k))
    return fam


# ----------------------------------------------------------------------------------------------
# C emission
# ----------------------------------------------------------------------------------------------
def c_nodes(nodes):
    if not nodes:
        return "{0}"
    return ", ".join("{%s,%d,%dULL,%d,%d}" % (XNAME[x["kind"]], x["w"], x["n"], x["off"], x["argw"]) for x in nodes)


def c_case(idx, sk, limit=2048, truncations=True, suffix=0):
    """C tables for one skeleton: bytes, expected nodes, and the expected outcome of the full input and of every truncation."""
    bs = sk["bytes"]
    o = sk["outcome"]
    n = len(bs)
    lines = []
    lines.append("/* case %d: %s -> %r */" % (idx, sk["name"], o))
    lines.append("static const int16_t SK_%d[] = {%s};" % (idx, ",".join(str(b) for b in bs)))
    lines.append("static const struct xnode XN_%d[] = {%s};" % (idx, c_nodes(o.nodes)))
    outs = []
    rng = sk.get("truncs", range(0, n + 1)) if truncations else [n]
    for t in rng:
        ot = o if t == n else ref_load(bs[:t], limit, sk.get("max_alloc"))
        if ot.ok:
            outs.append("{%d,1,%d,0,{{0,0},{0,0},{0,0}}}" % (t, ot.read))
        else:
            al = sorted(ot.allowed)[:3]
            assert len(ot.allowed) <= 3, ot
            al += [(0, 0)] * (3 - len(al))
            outs.append("{%d,0,0,%d,{%s}}" % (t, len(ot.allowed), ",".join("{%d,%d}" % a for a in al)))
    lines.append("static const struct xout XO_%d[] = {%s};" % (idx, ",".join(outs)))
    lines.append("static const struct xcase XC_%d = {SK_%d, %d, XN_%d, %d, XO_%d, %d, %d};" % (idx, idx, n, idx, len(o.nodes), idx, len(outs), o.depth))
    return "\n".join(lines)


def c_cases(batch, limit=2048, truncations=True):
    parts = ["/* generated by lib/skeleton.py -- do not edit */", '#include "tree.h"']
    for i, sk in enumerate(batch):
        parts.append(c_case(i, sk, limit, truncations))
    parts.append("#define NCASES %d" % len(batch))
    parts.append("#define FOR_EACH_CASE(F) " + " ".join("F(%d, &XC_%d);" % (i, i) for i in range(len(batch))))
    parts.append("#define FOR_EACH_PAIR(F) " + " ".join("F(%d, &XC_%d, &XC_%d);" % (i, i, (i + 1) % len(batch)) for i in range(len(batch))))
    parts.append("#define MAX_SK %d" % max(len(s["bytes"]) for s in batch))
    parts.append("#define MAX_NODES %d" % max([len(s["outcome"].nodes) for s in batch] + [1]))
    parts.append("#define MAX_DEPTH %d" % max(s["outcome"].depth for s in batch))
    return "\n".join(parts) + "\n"


if __name__ == "__main__":
    import sys
    for tier in ("quick", "thorough"):
        fam = family(tier)
        ok = sum(1 for f in fam if f["outcome"].ok)
        print(tier, "skeletons:", len(fam), "accepted:", ok, "max bytes:", max(len(f["bytes"]) for f in fam))
    if len(sys.argv) > 1:
        for f in family("quick")[: int(sys.argv[1])]:
            print(f["name"], "|", " ".join("??" if b < 0 else "%02x" % b for b in f["bytes"]), "|", f["outcome"])


# ----------------------------------------------------------------------------------------------
# construction programs (trees assembled through the public construction API)
# ----------------------------------------------------------------------------------------------
class _Prog:
    def __init__(self):
        self.lines = []
        self.dlen = 0
        self.nvar = 0
        self.shared = {}

    def alloc(self, n):
        off = self.dlen
        self.dlen += n
        return off

    def var(self):
        self.nvar += 1
        return "v%d" % self.nvar


INT_W = {8: 0, 16: 1, 32: 2, 64: 3}


def _emit(spec, P):
    """spec -> (C variable holding one client-owned reference, expected nodes in pre-order)."""
    k = spec[0]
    v = P.var()
    L = P.lines
    if k in ("uint", "negint"):
        bits = spec[1]
        via_new = len(spec) > 2 and spec[2] == "new"
        off = P.alloc(bits // 8)
        val = "(uint%d_t)rd(D,%d,%d)" % (bits, off, bits // 8)
        if via_new:
            L.append("cbor_item_t* %s = cbor_new_int%d(); __CPROVER_assume(%s); cbor_mark_%s(%s); cbor_set_uint%d(%s, %s);" % (v, bits, v, k, v, bits, v, val))
        else:
            L.append("cbor_item_t* %s = cbor_build_%s%d(%s); __CPROVER_assume(%s);" % (v, k, bits, val, v))
        return v, [dict(kind=X_UINT if k == "uint" else X_NEGINT, w=INT_W[bits], n=0, off=off, argw=bits // 8)]
    if k == "f16":
        off = P.alloc(2)
        L.append("cbor_item_t* %s = cbor_build_float2(half_val((uint16_t)rd(D,%d,2))); __CPROVER_assume(%s);" % (v, off, v))
        return v, [dict(kind=X_F16, w=0, n=0, off=off, argw=2)]
    if k == "f32":
        off = P.alloc(4)
        L.append("cbor_item_t* %s = cbor_build_float4(bits_f32((uint32_t)rd(D,%d,4))); __CPROVER_assume(%s);" % (v, off, v))
        return v, [dict(kind=X_F32, w=0, n=0, off=off, argw=4)]
    if k == "f64":
        off = P.alloc(8)
        L.append("cbor_item_t* %s = cbor_build_float8(bits_f64(rd(D,%d,8))); __CPROVER_assume(%s);" % (v, off, v))
        return v, [dict(kind=X_F64, w=0, n=0, off=off, argw=8)]
    if k == "ctrl":
        n = spec[1]
        how = {20: "cbor_build_bool(false)", 21: "cbor_build_bool(true)", 22: "cbor_new_null()", 23: "cbor_new_undef()"}[n]
        if len(spec) > 2 and spec[2] == "ctrl":
            how = "cbor_build_ctrl(%d)" % n
        L.append("cbor_item_t* %s = %s; __CPROVER_assume(%s);" % (v, how, v))
        return v, [dict(kind=X_CTRL, w=0, n=n, off=-1, argw=0)]
    if k in ("bstr", "tstr"):
        ln = spec[1]
        off = P.alloc(ln)
        if len(spec) > 2 and spec[2] == "handle":
            fn = "bytestring" if k == "bstr" else "string"
            L.append("cbor_item_t* %s = cbor_new_definite_%s(); __CPROVER_assume(%s); { unsigned char* h = _cbor_malloc(%d); __CPROVER_assume(h); "
                     "for (int i = 0; i < %d; i++) h[i] = D[%d + i]; cbor_%s_set_handle(%s, h, %d); }" % (v, fn, v, ln, ln, off, fn, v, ln))
        elif k == "bstr":
            L.append("cbor_item_t* %s = cbor_build_bytestring(D + %d, %d); __CPROVER_assume(%s);" % (v, off, ln, v))
        else:
            L.append("cbor_item_t* %s = cbor_build_stringn((const char*)D + %d, %d); __CPROVER_assume(%s);" % (v, off, ln, v))
        return v, [dict(kind=X_BSTR if k == "bstr" else X_TSTR, w=0, n=ln, off=off, argw=0)]
    if k in ("ibstr", "itstr"):
        fn = "bytestring" if k == "ibstr" else "string"
        L.append("cbor_item_t* %s = cbor_new_indefinite_%s(); __CPROVER_assume(%s);" % (v, fn, v))
        nodes = [dict(kind=X_IBSTR if k == "ibstr" else X_ITSTR, w=0, n=len(spec[1]), off=-1, argw=0)]
        for ch in spec[1]:
            cv, cn = _emit(ch, P)
            L.append("{ bool ok = cbor_%s_add_chunk(%s, %s); __CPROVER_assume(ok); cbor_decref(&%s); }" % (fn, v, cv, cv))
            nodes += cn
        return v, nodes
    if k in ("arr", "iarr"):
        kids = spec[2] if k == "arr" else spec[1]
        if k == "arr":
            L.append("cbor_item_t* %s = cbor_new_definite_array(%d); __CPROVER_assume(%s);" % (v, spec[1], v))
            nodes = [dict(kind=X_ARR, w=1 if spec[1] != len(kids) else 0, n=len(kids), off=-1, argw=0)]
        else:
            L.append("cbor_item_t* %s = cbor_new_indefinite_array(); __CPROVER_assume(%s);" % (v, v))
            nodes = [dict(kind=X_IARR, w=0, n=len(kids), off=-1, argw=0)]
        for i, ch in enumerate(kids):
            cv, cn = _emit_child(ch, P)
            how = "cbor_array_push(%s, %s)" % (v, cv) if i % 2 == 0 else "cbor_array_set(%s, %d, %s)" % (v, i, cv)
            L.append("{ bool ok = %s; __CPROVER_assume(ok); }" % how)
            _release(ch, cv, P)
            nodes += cn
        return v, nodes
    if k in ("map", "imap"):
        pairs = spec[2] if k == "map" else spec[1]
        if k == "map":
            L.append("cbor_item_t* %s = cbor_new_definite_map(%d); __CPROVER_assume(%s);" % (v, spec[1], v))
            nodes = [dict(kind=X_MAP, w=1 if spec[1] != len(pairs) else 0, n=len(pairs), off=-1, argw=0)]
        else:
            L.append("cbor_item_t* %s = cbor_new_indefinite_map(); __CPROVER_assume(%s);" % (v, v))
            nodes = [dict(kind=X_IMAP, w=0, n=len(pairs), off=-1, argw=0)]
        for (ks, vs) in pairs:
            kv, kn = _emit_child(ks, P)
            vv, vn = _emit_child(vs, P)
            L.append("{ bool ok = cbor_map_add(%s, (struct cbor_pair){.key = %s, .value = %s}); __CPROVER_assume(ok); }" % (v, kv, vv))
            _release(ks, kv, P)
            _release(vs, vv, P)
            nodes += kn + vn
        return v, nodes
    if k == "tag" and len(spec) > 2 and spec[2] == "const":
        cv, cn = _emit_child(spec[1], P)
        L.append("cbor_item_t* %s = cbor_build_tag(%dULL, %s); __CPROVER_assume(%s);" % (v, spec[3], cv, v))
        _release(spec[1], cv, P)
        return v, [dict(kind=X_TAG, w=0, n=spec[3], off=-1, argw=0)] + cn
    if k == "tag":
        cv, cn = _emit_child(spec[1], P)
        off = P.alloc(8)
        if len(spec) > 2 and spec[2] == "set":
            L.append("cbor_item_t* %s = cbor_new_tag(rd(D,%d,8)); __CPROVER_assume(%s); cbor_tag_set_item(%s, %s);" % (v, off, v, v, cv))
        else:
            L.append("cbor_item_t* %s = cbor_build_tag(rd(D,%d,8), %s); __CPROVER_assume(%s);" % (v, off, cv, v))
        _release(spec[1], cv, P)
        return v, [dict(kind=X_TAG, w=0, n=0, off=off, argw=8)] + cn
    raise ValueError(spec)


def _emit_child(ch, P):
    """('shared', name, spec): the same item referenced from several places (built once)."""
    if ch[0] == "shared":
        name = ch[1]
        if name not in P.shared:
            cv, cn = _emit(ch[2], P)
            P.shared[name] = (cv, cn, 0)
        cv, cn, uses = P.shared[name]
        P.shared[name] = (cv, cn, uses + 1)
        return cv, [dict(x) for x in cn]
    return _emit(ch, P)


def _release(ch, cv, P):
    if ch[0] == "shared":
        return  # the client keeps its reference until the end of the program (released by the harness epilogue)
    P.lines.append("cbor_decref(&%s);" % cv)


def build_case(name, spec):
    P = _Prog()
    root, nodes = _emit(spec, P)
    # expected refcounts: 1 everywhere except shared items (number of containers holding them), set after the client drops its own reference
    for sname, (cv, cn, uses) in P.shared.items():
        P.lines.append("cbor_decref(&%s); /* client drops its reference to shared item %s */" % (cv, sname))
    shared_rc = {}
    for sname, (cv, cn, uses) in P.shared.items():
        shared_rc[id(cn)] = uses
    o = Outcome(True, read=0, nodes=nodes, depth=0)
    return dict(name=name, bytes=[SYM] * max(P.dlen, 1), outcome=o, code=P.lines, root=root, built=True,
                shared={sname: uses for sname, (cv, cn, uses) in P.shared.items()}, truncs=[], in_S=False, nheads=len(nodes), status="complete", k=0)


def construction_family(tier):
    U = lambda b, *a: ("uint", b) + a
    N = lambda b, *a: ("negint", b) + a
    fam = []
    add = lambda n, s: fam.append(build_case(n, s))
    # every builder at top level, every width
    for b in (8, 16, 32, 64):
        add("build_uint%d" % b, U(b)); add("build_negint%d" % b, N(b)); add("new_int%d_marked_negint" % b, N(b, "new")); add("new_int%d_marked_uint" % b, U(b, "new"))
    add("build_float2", ("f16",)); add("build_float4", ("f32",)); add("build_float8", ("f64",))
    for c in (20, 21, 22, 23):
        add("ctrl_%d" % c, ("ctrl", c)); add("build_ctrl_%d" % c, ("ctrl", c, "ctrl"))
    for ln in (0, 1, 3):
        add("build_bytestring_%d" % ln, ("bstr", ln)); add("build_stringn_%d" % ln, ("tstr", ln))
        add("bytestring_set_handle_%d" % ln, ("bstr", ln, "handle")); add("string_set_handle_%d" % ln, ("tstr", ln, "handle"))
    # chunked strings: zero, one, multi chunk (incl. empty chunks)
    add("indef_bytestring_0chunks", ("ibstr", [])); add("indef_string_0chunks", ("itstr", []))
    add("indef_bytestring_3chunks", ("ibstr", [("bstr", 1), ("bstr", 0), ("bstr", 2)]))
    add("indef_string_2chunks", ("itstr", [("tstr", 2), ("tstr", 1)]))
    # arrays: definite full / partially filled / empty, indefinite 0..3 (growth 0->1->2->4)
    add("def_array_0_of_0", ("arr", 0, [])); add("def_array_0_of_2", ("arr", 2, []))
    add("def_array_2_of_3", ("arr", 3, [U(8), N(16)])); add("def_array_3_of_3", ("arr", 3, [U(64), ("tstr", 1), ("ctrl", 21)]))
    add("indef_array_0", ("iarr", [])); add("indef_array_1", ("iarr", [("f16",)])); add("indef_array_3", ("iarr", [U(8), ("f32",), ("bstr", 2)]))
    # maps
    add("def_map_0_of_0", ("map", 0, [])); add("def_map_1_of_2", ("map", 2, [(U(8), ("tstr", 2))]))
    add("def_map_2_of_2", ("map", 2, [(("tstr", 1), N(32)), (("ibstr", [("bstr", 1)]), ("f64",))]))
    add("def_map_2_leaf_pairs", ("map", 2, [(U(8), U(16)), (N(8), ("ctrl", 21))])); add("indef_map_2_leaf_pairs", ("imap", [(U(8), N(8)), (U(8), U(8))]))
    add("tag_of_map_1_pair", ("tag", ("map", 1, [(U(8), N(16))]))); add("indef_array_of_2_tags", ("iarr", [("tag", U(8), "const", 3), ("tag", N(8), "const", 300)]))
    add("indef_map_0", ("imap", [])); add("indef_map_3", ("imap", [(U(8), U(16)), (N(8), ("ctrl", 22)), (("tstr", 0), ("arr", 0, []))]))
    # tags
    add("tag_leaf", ("tag", U(8))); add("tag_set_item", ("tag", ("tstr", 2), "set")); add("tag_nested3", ("tag", ("tag", ("tag", N(64), "const", 5), "const", 1000)))
    add("tag_const_2pow32", ("tag", U(8), "const", 1 << 32)); add("tag_const_65535", ("tag", ("ctrl", 20), "const", 65535))
    # nesting depth 3, mixed
    add("nested_mixed", ("iarr", [("map", 1, [(U(8), ("arr", 2, [("tag", ("f16",)), ("ibstr", [])]))]), ("itstr", [("tstr", 1)])]))
    add("array_in_map_in_tag", ("tag", ("imap", [(("arr", 1, [U(16)]), ("iarr", [("ctrl", 20), ("ctrl", 23)]))])))
    # shared sub-items
    add("shared_leaf_twice_in_array", ("iarr", [("shared", "s", U(32)), ("shared", "s", U(32))]))
    add("shared_string_in_array_and_map", ("arr", 2, [("shared", "s", ("tstr", 2)), ("imap", [(("shared", "s", ("tstr", 2)), U(8))])]))
    add("shared_array_key_and_value", ("map", 1, [(("shared", "a", ("arr", 1, [N(8)])), ("shared", "a", ("arr", 1, [N(8)])))]))
    return fam


def c_trees(batch, limit=2048):
    """Tables + one constructor function per case: mk_k(D) returns the tree (decoded from D for skeleton cases, assembled by
    construction calls for construction cases)."""
    parts = ["/* generated by lib/skeleton.py -- do not edit */", '#include "tree.h"', '#include "treeops.h"']
    for i, s in enumerate(batch):
        o = s["outcome"]
        n = len(s["bytes"])
        parts.append("/* tree %d: %s */" % (i, s["name"]))
        parts.append("static const int16_t SK_%d[] = {%s};" % (i, ",".join(str(b) for b in s["bytes"])))
        parts.append("static const struct xnode XN_%d[] = {%s};" % (i, c_nodes(o.nodes)))
        parts.append("static const struct xcase XC_%d = {SK_%d, %d, XN_%d, %d, 0, 0, %d};" % (i, i, n, i, len(o.nodes), o.depth))
        if s.get("built"):
            body = "\n  ".join(s["code"])
            parts.append("static cbor_item_t* mk_%d(const unsigned char* D) {\n  %s\n  return %s;\n}" % (i, body, s["root"]))
            parts.append("#define SHARED_%d %d" % (i, 1 if s["shared"] else 0))
        else:
            parts.append("static cbor_item_t* mk_%d(const unsigned char* D) { return load_tree(D, %d); }" % (i, n))
            parts.append("#define SHARED_%d 0" % i)
    def maxout(nodes):
        t = 0
        for x in nodes:
            k = x["kind"]
            if k in (X_BSTR, X_TSTR):
                t += 1 + x["n"] + (0 if x["n"] < 24 else 1)
            elif k in (X_IBSTR, X_ITSTR, X_IARR, X_IMAP):
                t += 2
            elif k in (X_ARR, X_MAP, X_CTRL):
                t += 1
            elif x["argw"] == 0 and k == X_TAG:
                v = x["n"]
                t += 1 if v < 24 else 2 if v < 256 else 3 if v < 65536 else 5 if v < (1 << 32) else 9
            else:
                t += 1 + max(x["argw"], 1 if k in (X_UINT, X_NEGINT) else 0)
        return t
    parts.append("#define MAX_OUT %d" % max(maxout(s["outcome"].nodes) for s in batch))
    parts.append("#define NCASES %d" % len(batch))
    parts.append("#define FOR_EACH_TREE(F) " + " ".join("F(%d, &XC_%d, mk_%d, SHARED_%d, %d);" % (i, i, i, i, 1 if s.get("built") else 0) for i, s in enumerate(batch)))
    parts.append("#define MAX_SK %d" % max(len(s["bytes"]) for s in batch))
    parts.append("#define MAX_NODES %d" % max([len(s["outcome"].nodes) for s in batch] + [1]))
    parts.append("#define MAX_DEPTH %d" % max(s["outcome"].depth for s in batch))
    return "\n".join(parts) + "\n"


# ----------------------------------------------------------------------------------------------
# nesting spines (C19)
# ----------------------------------------------------------------------------------------------
def spine(kinds, inner):
    """Open the containers in `kinds` (outermost first), put `inner` innermost, then close everything properly."""
    seq, closers = [], []
    for i, k in enumerate(kinds):
        f = FORMS[i % 5]
        if k == "tag":
            seq.append(tok("tag", form=f, imm=i % 24)); closers.append([])
        elif k == "arr":
            seq.append(tok("arr", n=1, form=f)); closers.append([])
        elif k == "iarr":
            seq.append(tok("iarr")); closers.append([tok("break")])
        elif k == "mapkey":      # nested item in key position
            seq.append(tok("map", n=1, form=f)); closers.append([tok("leaf", leaf="uint_imm0")])
        elif k == "mapval":      # nested item in value position
            seq += [tok("map", n=1), tok("leaf", leaf="negint8")]; closers.append([])
        elif k == "imapval":
            seq += [tok("imap"), tok("tstr", len=1)]; closers.append([tok("break")])
        elif k == "imapkey":
            seq.append(tok("imap")); closers.append([tok("leaf", leaf="true"), tok("break")])
        else:
            raise ValueError(k)
    seq += inner
    for c in reversed(closers):
        seq += c
    return seq


SPINE_KINDS = ["tag", "arr", "iarr", "mapkey", "mapval", "imapval", "imapkey"]


def spine_family(L):
    """Spines at depths L-1, L, L+1 and 2L+1 from every container kind; chunked strings innermost count as one more level."""
    fam, seen = [], set()
    for depth in sorted(set([max(L - 1, 0), L, L + 1, 2 * L + 1])):
        for start in range(len(SPINE_KINDS)):
            kinds = [SPINE_KINDS[(start + j * (1 + start % 3)) % len(SPINE_KINDS)] for j in range(depth)]
            for inner_name, inner in (("leaf", [tok("leaf", leaf=LEAF_NAMES[(start + depth) % len(LEAF_NAMES)])]),
                                      ("chunked", [tok("ibstr"), tok("bstr", len=1), tok("break")]),
                                      ("empty_def", [tok("arr", n=0)])):
                if inner_name != "leaf" and start % 2:
                    continue
                s = spine(kinds, inner)
                bs = seq_bytes(s)
                if tuple(bs) in seen or not bs:
                    continue
                seen.add(tuple(bs))
                n = len(bs)
                o = ref_load(bs, L)
                # truncation points: every head boundary (so the MEMERROR position and the preceding NOTENOUGHDATA prefixes are both probed)
                bounds, p = [], 0
                for t in s:
                    p += len(tok_bytes(t))
                    bounds.append(p)
                fam.append(dict(name="depth%d %s [%s]" % (depth, inner_name, seq_name(s)), bytes=bs, toks=s, outcome=o, truncs=sorted(set(bounds)), in_S=False,
                                nheads=len(s), status="complete" if o.ok else "error", k=0, depth=depth))
    # siblings: several containers opened and closed one after another at the deepest allowed level (the frame count must go down again)
    if L >= 2:
        for start in range(3):
            kinds = [SPINE_KINDS[(start + jj) % len(SPINE_KINDS)] for jj in range(L - 2)]
            sib = [tok("arr", n=4), tok("map", n=1), tok("leaf", leaf="uint8"), tok("leaf", leaf="true"), tok("tag", form=0, imm=5), tok("leaf", leaf="null"),
                   tok("iarr"), tok("leaf", leaf="negint8"), tok("break"), tok("ibstr"), tok("bstr", len=1), tok("break")]
            s_ = spine(kinds, sib)
            bs = seq_bytes(s_)
            if tuple(bs) in seen:
                continue
            seen.add(tuple(bs))
            o = ref_load(bs, L)
            fam.append(dict(name="siblings_at_depth%d [%s]" % (L, seq_name(s_)), bytes=bs, toks=s_, outcome=o, truncs=[len(bs)], in_S=False, nheads=len(s_),
                            status="complete" if o.ok else "error", k=0, depth=L))
    return fam


def huge_family():
    """Declared counts / lengths near 2^32 and 2^60..2^64 (C01/C20): the table or payload cannot exist; the decoder must fail
    cleanly (MEMERROR or NOTENOUGHDATA) without ever under-allocating."""
    Z = [0] * 7
    raws = {
        "map_2^60_pairs": [0xbb, 0x10] + Z + [0x01, 0x02],
        "map_2^60+1_pairs": [0xbb, 0x10] + Z[:6] + [0x01, 0x01, 0x02, 0x03, 0x04],
        "map_2^63_pairs": [0xbb, 0x80] + Z + [0x01],
        "map_2^64-1_pairs": [0xbb] + [0xff] * 8 + [0x00, 0x00],
        "array_2^61": [0x9b, 0x20] + Z + [0x01],
        "array_2^61+2": [0x9b, 0x20] + Z[:6] + [0x02, 0x01, 0x02],
        "array_2^64-1": [0x9b] + [0xff] * 8 + [0x00],
        "array_2^32-1": [0x9a, 0xff, 0xff, 0xff, 0xff, 0x00],
        "map_2^32": [0xbb, 0, 0, 0, 1, 0, 0, 0, 0, 0x00, 0x00],
        "bytes_2^64-1": [0x5b] + [0xff] * 8 + [SYM],
        "text_2^63": [0x7b, 0x80] + Z + [SYM, SYM],
        "tagged_map_2^60": [0xd8, SYM, 0xbb, 0x10] + Z + [0x01, 0x02],
        "in_indef_array_map_2^60": [0x9f, 0xbb, 0x10] + Z + [0x01, 0x02, 0xff],
        "chunk_2^62_in_chunked": [0x5f, 0x5b, 0x40] + Z + [SYM],
    }
    fam = []
    for name, bs in raws.items():
        # expected outcomes under an allocator that refuses requests above 4096 bytes (alloc.h recording mode)
        fam.append(dict(name="huge:" + name, bytes=bs, toks=[tok("raw", bytes=bs)], outcome=ref_load(bs, 2048, 4096), truncs=list(range(0, len(bs) + 1)), in_S=False, nheads=1, status="error", k=0, max_alloc=4096))
    return fam


def enum_large():
    """Shapes with some size to them: growth past the third reallocation, counts/lengths that leave the immediate head form,
    deep mixed nesting, maps with several pairs of different kinds. Few, but each exercises loops and growth steps that the
    exhaustive small families cannot reach."""
    T = tok
    U8 = T("leaf", leaf="uint8")
    I = lambda k: T("raw", bytes=[k % 24])                     # immediate unsigned k
    asc = lambda n: T("raw", bytes=head(3, n, 1 if n >= 24 else 0) + [0x61 + (i % 26) for i in range(n)])   # text string, concrete ASCII payload
    out = [
        ("iarr_5_symbolic_elems", [T("iarr")] + [U8] * 5 + [T("break")]),
        ("iarr_9_immediates", [T("iarr")] + [I(k) for k in range(9)] + [T("break")]),
        ("iarr_17_immediates", [T("iarr")] + [I(k) for k in range(17)] + [T("break")]),
        ("iarr_24_immediates", [T("iarr")] + [I(k) for k in range(24)] + [T("break")]),
        ("iarr_256_immediates", [T("iarr")] + [I(k) for k in range(256)] + [T("break")]),
        ("arr_256_count_in_2byte_form", [T("arr", n=256, form=2)] + [I(k) for k in range(256)]),
        ("imap_24_pairs", [T("imap")] + [x for k in range(24) for x in (I(k), I(k + 1))] + [T("break")]),
        ("nested_iarr_24_in_arr", [T("arr", n=2), I(7), T("iarr")] + [I(k) for k in range(24)] + [T("break")]),
        ("imap_5_pairs", [T("imap")] + [x for k in range(5) for x in (I(k), U8)] + [T("break")]),
        ("ibstr_5_chunks", [T("ibstr")] + [T("bstr", len=1)] * 5 + [T("break")]),
        ("itstr_4_chunks", [T("itstr"), T("tstr", len=0), T("tstr", len=1), T("tstr", len=2), T("tstr", len=1), T("break")]),
        ("arr_24_count_in_1byte_form", [T("arr", n=24, form=1)] + [I(k) for k in range(24)]),
        ("arr_25", [T("arr", n=25, form=1)] + [I(k) for k in range(24)] + [U8]),
        ("map_24_pairs", [T("map", n=24, form=1)] + [x for k in range(24) for x in (I(k), I(23 - k))]),
        ("bstr_16_symbolic", [T("bstr", len=16)]), ("bstr_23_symbolic", [T("bstr", len=23)]), ("tstr_16_ascii", [asc(16)]), ("tstr_23_ascii", [asc(23)]), ("tstr_32_ascii", [asc(32)]), ("tstr_64_ascii", [asc(64)]),
        ("tstr_33_multibyte_tail", [T("raw", bytes=head(3, 33, 1) + [0x61 + (i % 26) for i in range(29)] + [0xF4, 0x8F, 0xBF, 0xBF])]),
        ("tstr_9_3byte_tail", [T("raw", bytes=head(3, 9, 0) + [0x61] * 6 + [0xEF, 0xBF, 0xBF])]),
        ("arr_16_immediates", [T("arr", n=16)] + [I(k) for k in range(16)]), ("map_16_pairs_in_tag", [T("tag", form=2), T("map", n=16)] + [x for k in range(16) for x in (I(k), I(k))]),
        ("bstr_24_symbolic", [T("bstr", len=24, form=1)]),
        ("bstr_256_symbolic", [T("bstr", len=256, form=2)]),
        ("tstr_24_ascii", [asc(24)]),
        ("tstr_255_ascii", [asc(255)]),
        ("depth6_mixed", [T("arr", n=1), T("imap"), T("tag", form=1), T("iarr"), T("map", n=1), U8, T("tag", form=0, imm=2), T("ibstr"), T("bstr", len=2), T("break"), T("break"),
                          T("leaf", leaf="true"), T("break")]),
        ("map_3_pairs_mixed_kinds", [T("map", n=3), U8, T("tstr", len=2), T("tstr", len=1), T("arr", n=2), T("leaf", leaf="f16"), T("leaf", leaf="null"), T("leaf", leaf="negint16"),
                                    T("imap"), T("break")]),
        ("iarr_of_containers", [T("iarr"), T("imap"), I(1), U8, I(2), T("tstr", len=1), I(3), T("leaf", leaf="f32"), T("break"), T("ibstr"), T("bstr", len=1), T("bstr", len=0), T("bstr", len=2),
                                T("break"), T("arr", n=3), I(7), T("leaf", leaf="uint64"), T("arr", n=0), T("break")]),
        ("chunk_24_in_chunked", [T("itstr"), asc(24), asc(1), T("break")]),
    ]
    fam = []
    for name, s in out:
        bs = seq_bytes(s)
        o = ref_load(bs)
        assert o.ok, (name, o)
        n = len(bs)
        # truncations at a handful of offsets (every ~1/6 of the input) rather than all
        tr = sorted(set([n] + [max(1, (n * k) // 6) for k in range(1, 6)]))
        fam.append(dict(name="large:" + name, bytes=bs, toks=s, outcome=o, truncs=tr, in_S=False, nheads=len(s), status="complete", k=0, large=True))
    return fam


def enum_long_text():
    """Concrete text strings of 9..300 bytes that place multi-byte sequences across 8/16/32/64-byte boundaries, end in a truncated
    sequence, or hide a surrogate / overlong / too-large sequence after the first 8 bytes (C16 beyond the exhaustive length bound)."""
    SEQ = {2: [0xC3, 0xA9], 3: [0xE2, 0x82, 0xAC], 4: [0xF0, 0x9F, 0x98, 0x80]}
    cases = []

    def text(bs, name):
        n = len(bs)
        f = 0 if n < 24 else 1 if n < 256 else 2
        cases.append((name, head(3, n, f) + bs))
    for B in (8, 16, 32, 64):
        for sl, q in SEQ.items():
            for k in range(0, sl):          # sequence starts k bytes before the boundary
                bs = [0x61] * (B - k) + q + [0x62] * 5
                text(bs, "len%d_%dbyte_seq_at_%d" % (len(bs), sl, B - k))
            text([0x61] * (B - 1) + q[:1], "len%d_truncated_%dbyte_at_end" % (B, sl))          # lead byte only, at the very end
            if sl > 2:
                text([0x61] * (B - sl + 1) + q[:sl - 1], "len%d_truncated_%dbyte_missing_last" % (B, sl))
    text([0x61] * 9 + [0xED, 0xA0, 0x80] + [0x61] * 4, "surrogate_after_9")
    text([0x61] * 17 + [0xC0, 0x80], "overlong_c0_after_17")
    text([0x61] * 12 + [0xF4, 0x90, 0x80, 0x80], "above_10ffff_after_12")
    text([0x61] * 20 + [0xE0, 0x9F, 0xBF] + [0x61] * 3, "overlong_3byte_after_20")
    text([0x61] * 256, "ascii_256"); text([0x61] * 300, "ascii_300")
    text(SEQ[2] * 130, "two_byte_x130_260_code_units")
    text(SEQ[4] * 70 + [0x61], "four_byte_x70")
    fam = []
    for name, bs in cases:
        o = ref_load(bs)
        assert o.ok
        fam.append(dict(name="text:" + name, bytes=bs, toks=[tok("raw", bytes=bs)], outcome=o, truncs=[len(bs)], in_S=False, nheads=1, status="complete", k=0))
    return fam
