#!/usr/bin/env python3
"""dev helper: build one obligation's goto binary and print the cbmc command (python3 tools_dbg.py C20 new_definite_map)"""
import sys, os, importlib
sys.path.insert(0, "/verif/lib"); sys.path.insert(0, "/verif")
import vf
mod = importlib.import_module("checks." + sys.argv[1].lower())
tier = sys.argv[3] if len(sys.argv) > 3 else "quick"
o = [o for o in mod.obligations(tier) if sys.argv[2] in o.name][0]
d = "/tmp/vfdbg"; os.makedirs(d, exist_ok=True)
b = vf.compile_harness(o, d)
if o.pipeline == "dfcc": b = vf.dfcc_instrument(o, b, d)
cmd = vf.cbmc_cmd(o, b)
cmd.remove("--json-ui")
print(" ".join("'%s'" % c if any(x in c for x in "()^ ") else c for c in cmd))
