/* C06: allocation failure. For each scenario the fault index k is enumerated concretely (k alone; k and all later) until a run
 * makes fewer than k+1 requests (= the fault-free run); data stay symbolic. CBMC's NULL / bounds / use-after-free checks are on:
 * a crash on a failure path is a failed property. */
#if defined(M_LOAD)
#include "cases.h"
#elif defined(M_TREEOPS)
#include "trees.h"
#else
#include "tree.h"
#include "treeops.h"
#endif
#ifndef KMAX
#ifdef MAX_NODES
#define KMAX (3 * MAX_NODES + 6)
#else
#define KMAX 12
#endif
#endif

static void arm(size_t k, bool stop) { a_reqs = 0; a_failk = k; a_failstop = stop; a_inject = true; }
static bool disarm(size_t k) { a_inject = false; return a_reqs > k; /* request k was reached, i.e. a refusal really happened */ }

#if defined(M_LOAD)
static void run_case(int id, const struct xcase* c) {
  vf_case = id;
  unsigned char D[MAX_SK + 1];
  for (size_t i = 0; i < MAX_SK; i++) if (i < c->n) D[i] = c->sk[i] < 0 ? in_u8() : (unsigned char)c->sk[i];
  for (int stop = 0; stop < 2; stop++) {
    bool done = false;
    for (size_t k = 0; k < KMAX; k++) if (!done) {
      unsigned char* buf = vf_block(c->n);
      for (size_t i = 0; i < MAX_SK; i++) if (i < c->n) buf[i] = D[i];
      struct cbor_load_result res;
      arm(k, stop);
      cbor_item_t* it = cbor_load(buf, c->n, &res);
      bool refused = disarm(k);
      free(buf);
      if (refused) {
        VF_ASSERT(it == NULL, "a refused allocation makes cbor_load fail");
        VF_ASSERT(res.error.code == CBOR_ERR_MEMERROR, "refused allocation is reported as MEMERROR");
        VF_ASSERT(res.read == res.error.position && res.error.position <= c->n && res.error.position >= 1, "MEMERROR positioned just past a head inside the input");
        VF_ASSERT(a_live == 0, "everything allocated up to the refusal is released");
      } else {
        VF_ASSERT(it != NULL && res.error.code == CBOR_ERR_NONE && res.read == c->n, "fault-free run succeeds");
        if (it) { size_t ix = 0; tree_check(it, c->xn, &ix, D, 1); cbor_decref(&it); }
        VF_ASSERT(a_live == 0, "released");
        done = true;
      }
    }
    VF_ASSERT(done, "fault enumeration reached the fault-free run (KMAX large enough)");
  }
}
void harness(void) { a_install(); FOR_EACH_CASE(run_case) VF_WITNESS(); }

#elif defined(M_TREEOPS)
static void run_tree(int id, const struct xcase* c, cbor_item_t* it, const unsigned char* D, int shared, int built) {
  vf_case = id;
  size_t live0 = a_live;
  for (int op = 0; op < 2; op++) for (int stop = 0; stop < 2; stop++) {
    bool done = false;
    for (size_t k = 0; k < KMAX; k++) if (!done) {
      cbor_item_t* cp = NULL; unsigned char* ab = (unsigned char*)1; size_t absz = 777, aw = 0;
      arm(k, stop);
      if (op == 0) cp = cbor_copy(it); else aw = cbor_serialize_alloc(it, &ab, &absz);
      bool refused = disarm(k);
      if (refused) {
        if (op == 0) VF_ASSERT(cp == NULL, "cbor_copy reports a refused allocation as NULL");
        else VF_ASSERT(aw == 0 && ab == NULL && absz == 0, "cbor_serialize_alloc reports a refused allocation as 0 / NULL / size 0");
        VF_ASSERT(a_live == live0, "everything the failed operation had allocated is released");
      } else {
        if (op == 0) { VF_ASSERT(cp != NULL, "fault-free copy succeeds"); if (cp) cbor_decref(&cp); }
        else { VF_ASSERT(aw > 0 && ab != NULL && absz == aw, "fault-free serialize_alloc succeeds"); if (aw) a_free(ab); }
        VF_ASSERT(a_live == live0, "released");
        done = true;
      }
      /* the argument tree is exactly as before: contents and reference counts */
      size_t ix = 0; tree_check(it, c->xn, &ix, D, shared ? 0 : 1);
    }
    VF_ASSERT(done, "fault enumeration reached the fault-free run (KMAX large enough)");
  }
  cbor_decref(&it);
  VF_ASSERT(a_live == 0, "released");
}
#define RUN(id, xc, mk, shared, built)                                                          \
  {                                                                                             \
    static unsigned char D[MAX_SK + 1];                                                         \
    for (size_t i = 0; i < MAX_SK; i++) if (i < (xc)->n) D[i] = (xc)->sk[i] < 0 ? in_u8() : (unsigned char)(xc)->sk[i]; \
    concretize_widths((xc)->xn, (xc)->nn, D, id); /* serialize_alloc requests `size` bytes: keep that size concrete (a symbolic-size block turns every access into array theory) */ \
    cbor_item_t* it = mk(D);                                                                    \
    run_tree(id, xc, it, D, shared, built);                                                     \
  }
void harness(void) { a_install(); FOR_EACH_TREE(RUN) VF_WITNESS(); }

#elif defined(M_BUILDERS)
/* every constructor: refused at request k => NULL and nothing stays allocated */
#define TRY(expr)                                                                      \
  for (int stop = 0; stop < 2; stop++) {                                               \
    bool done = false;                                                                 \
    for (size_t k = 0; k < 4; k++) if (!done) {                                        \
      arm(k, stop);                                                                    \
      cbor_item_t* r = (expr);                                                         \
      bool refused = disarm(k);                                                        \
      if (refused) { VF_ASSERT(r == NULL, #expr ": refused allocation gives NULL"); VF_ASSERT(a_live == live0, #expr ": nothing leaked"); } \
      else { VF_ASSERT(r != NULL, #expr ": fault-free call succeeds"); if (r) cbor_decref(&r); VF_ASSERT(a_live == live0, #expr ": released"); done = true; } \
    }                                                                                  \
    VF_ASSERT(done, "reached the fault-free run");                                     \
  }
void harness(void) {
  a_install();
  uint64_t v = in_u64();
  unsigned char* s = vf_sym_block(3);
  cbor_item_t* child = cbor_build_uint8(in_u8());
  __CPROVER_assume(child != NULL);
  size_t live0 = a_live;
#if PART == 1
  TRY(cbor_new_int8()) TRY(cbor_new_int16()) TRY(cbor_new_int32()) TRY(cbor_new_int64())
  TRY(cbor_build_uint8((uint8_t)v)) TRY(cbor_build_uint16((uint16_t)v)) TRY(cbor_build_uint32((uint32_t)v)) TRY(cbor_build_uint64(v))
  TRY(cbor_build_negint8((uint8_t)v)) TRY(cbor_build_negint16((uint16_t)v)) TRY(cbor_build_negint32((uint32_t)v)) TRY(cbor_build_negint64(v))
#elif PART == 2
  TRY(cbor_new_ctrl()) TRY(cbor_new_float2()) TRY(cbor_new_float4()) TRY(cbor_new_float8()) TRY(cbor_new_null()) TRY(cbor_new_undef())
  TRY(cbor_build_bool(v & 1)) TRY(cbor_build_ctrl((uint8_t)v)) TRY(cbor_build_float2(bits_f32((uint32_t)v))) TRY(cbor_build_float4(bits_f32((uint32_t)v))) TRY(cbor_build_float8(bits_f64(v)))
#elif PART == 3
  TRY(cbor_new_definite_bytestring()) TRY(cbor_new_indefinite_bytestring()) TRY(cbor_build_bytestring(s, 3)) TRY(cbor_build_bytestring(s, 0))
  TRY(cbor_new_definite_string()) TRY(cbor_new_indefinite_string()) TRY(cbor_build_stringn((const char*)s, 3)) TRY(cbor_build_string("ab"))
#else
  TRY(cbor_new_definite_array(0)) TRY(cbor_new_definite_array(3)) TRY(cbor_new_indefinite_array())
  TRY(cbor_new_definite_map(0)) TRY(cbor_new_definite_map(2)) TRY(cbor_new_indefinite_map())
  TRY(cbor_new_tag(v)) TRY(cbor_build_tag(v, child))
  VF_ASSERT(cbor_refcount(child) == 1, "a failed or released cbor_build_tag leaves the child's reference count as it was");
#endif
  cbor_decref(&child);
  free(s);
  VF_ASSERT(a_live == 0, "released");
  VF_WITNESS();
}

#else /* M_GROW: insertion into an indefinite container holding PRE entries, with the growth reallocation refused */
#ifndef PRE
#define PRE 2
#endif
void harness(void) {
  a_install();
  cbor_item_t* e[5];
  for (int i = 0; i < 5; i++) {
#if KIND == 3 || KIND == 4
    unsigned char b = in_u8();
    e[i] = KIND == 3 ? cbor_build_bytestring(&b, 1) : cbor_build_stringn((const char*)&b, 1);
#else
    e[i] = cbor_build_uint8(in_u8());
#endif
    __CPROVER_assume(e[i] != NULL);
  }
#if KIND == 1
  cbor_item_t* c = cbor_new_indefinite_array();
#elif KIND == 2
  cbor_item_t* c = cbor_new_indefinite_map();
#elif KIND == 3
  cbor_item_t* c = cbor_new_indefinite_bytestring();
#else
  cbor_item_t* c = cbor_new_indefinite_string();
#endif
  __CPROVER_assume(c != NULL);
  for (int i = 0; i < 4; i++) if (i < PRE) {
#if KIND == 1
    bool ok = cbor_array_push(c, e[i]);
#elif KIND == 2
    bool ok = cbor_map_add(c, (struct cbor_pair){.key = e[i], .value = e[i]});
#elif KIND == 3
    bool ok = cbor_bytestring_add_chunk(c, e[i]);
#else
    bool ok = cbor_string_add_chunk(c, e[i]);
#endif
    __CPROVER_assume(ok);
  }
#if KIND == 1
#define SIZE() cbor_array_size(c)
#define CAP() cbor_array_allocated(c)
#define SLOT(i) (cbor_array_handle(c)[i])
#elif KIND == 2
#define SIZE() cbor_map_size(c)
#define CAP() cbor_map_allocated(c)
#define SLOT(i) (cbor_map_handle(c)[i].key)
#elif KIND == 3
#define SIZE() cbor_bytestring_chunk_count(c)
#define CAP() (((struct cbor_indefinite_string_data*)c->data)->chunk_capacity)
#define SLOT(i) (cbor_bytestring_chunks_handle(c)[i])
#else
#define SIZE() cbor_string_chunk_count(c)
#define CAP() (((struct cbor_indefinite_string_data*)c->data)->chunk_capacity)
#define SLOT(i) (cbor_string_chunks_handle(c)[i])
#endif
#if KIND <= 2
#define TABLE() ((void*)c->data)
#else
#define TABLE() ((void*)((struct cbor_indefinite_string_data*)c->data)->chunks)
#endif
  size_t size0 = SIZE(), cap0 = CAP(), live0 = a_live, rc_new0 = cbor_refcount(e[4]), rc_c0 = cbor_refcount(c);
  void* table0 = TABLE();
  cbor_item_t* slots0[4];
  for (size_t i = 0; i < 4; i++) if (i < size0) slots0[i] = SLOT(i);
  for (int stop = 0; stop < 2; stop++) {
    arm(0, stop);
#if KIND == 1
    bool ok = cbor_array_push(c, e[4]);
#elif KIND == 2
    bool ok = cbor_map_add(c, (struct cbor_pair){.key = e[4], .value = e[4]});
#elif KIND == 3
    bool ok = cbor_bytestring_add_chunk(c, e[4]);
#else
    bool ok = cbor_string_add_chunk(c, e[4]);
#endif
    bool refused = disarm(0);
    VF_ASSERT(refused == (size0 == cap0), "a reallocation is requested exactly when the container is full");
    if (refused) {
      VF_ASSERT(!ok, "refused growth is reported as false");
      VF_ASSERT(TABLE() == table0, "the container still owns its element table after a refused growth");
      __CPROVER_assume(TABLE() == table0); /* recorded above; do not walk a lost table */
      VF_ASSERT(SIZE() == size0 && CAP() == cap0, "size and capacity unchanged after a refused growth");
      VF_ASSERT(cbor_refcount(e[4]) == rc_new0 && cbor_refcount(c) == rc_c0, "reference counts unchanged after a refused growth");
      for (size_t i = 0; i < 4; i++) if (i < size0) VF_ASSERT(SLOT(i) == slots0[i], "contents unchanged after a refused growth");
      VF_ASSERT(a_live == live0, "nothing leaked by the refused growth");
    } else {
      VF_ASSERT(ok && SIZE() == size0 + 1, "insertion without reallocation succeeds");
      stop = 2;
    }
  }
  for (int i = 0; i < 5; i++) cbor_decref(&e[i]);
  cbor_decref(&c);
  VF_ASSERT(a_live == 0, "released");
  VF_WITNESS();
}
#endif
