/* Stubs that are part of every claim (CBMC side only; the native replay uses the real libc/libm). */
#include <stdint.h>
#include <stdio.h>
uint64_t VF_IN;

/* CBMC ships no body for ldexp. libcbor calls it only from _cbor_decode_half with
 * x in [0,2047] and e in [-25,5]: exact scaling by a power of two built from its bit pattern. */
double ldexp(double x, int e) {
  __CPROVER_assert(e >= -1022 && e <= 1023, "ldexp model: exponent in normal range");
  union { double d; uint64_t u; } p;
  p.u = (uint64_t)(e + 1023) << 52;
  return x * p.d;
}

/* stdio: formatting is not the subject of any property; the tree accesses made to compute the arguments are. */
int nondet_int(void);
static int vf_io_ret(void) { int r = nondet_int(); __CPROVER_assume(r >= 0); return r; }
int fprintf(FILE* f, const char* fmt, ...) { (void)f; (void)fmt; return vf_io_ret(); }
int fputs(const char* s, FILE* f) { (void)s; (void)f; return vf_io_ret(); }
int fputc(int c, FILE* f) { (void)f; return c; }
size_t fwrite(const void* p, size_t s, size_t n, FILE* f) {
  /* reading the source bytes is what fwrite does to the caller's memory */
  if (s * n > 0) { unsigned char first = ((const unsigned char*)p)[0], last = ((const unsigned char*)p)[s * n - 1]; (void)first; (void)last; }
  (void)f; return n;
}
