/* C15: floating-point bit patterns through decode and encode. MODE selects the obligation. */
#include "ref.h"
#include "cbor/internal/loaders.h"
#define M_HALF 1       /* every half pattern: _cbor_load_half vs integer-only reference, encode_half reproduces bytes */
#define M_HALF_TOTAL 2 /* every binary32 pattern: cbor_encode_half is total (3 bytes, no UB, no assertion) */
#define M_SINGLE 3
#define M_DOUBLE 4
#define M_ITEM_HALF 5  /* cbor_load(F9 hh hh) -> getters -> cbor_serialize ; cbor_build_float2 -> serialize */
#define M_ITEM_SINGLE 6
#define M_ITEM_DOUBLE 7

void harness(void) {
#if MODE == M_HALF
  uint16_t h = in_u16();
  unsigned char* in = vf_block(2); in[0] = h >> 8; in[1] = (unsigned char)h;
  float f = _cbor_load_half(in);
  int nan; uint32_t ref = ref_half_to_single_bits(h, &nan);
  if (nan) VF_ASSERT(ref_is_nan32(f32_bits(f)), "half NaN decodes to NaN");
  else VF_ASSERT(f32_bits(f) == ref, "half decodes to exactly the IEEE-754 value it denotes");
  unsigned char* out = vf_block(3);
  size_t w = cbor_encode_half(f, out, 3);
  VF_ASSERT(w == 3 && out[0] == 0xf9, "half encodes to F9 + 2 bytes");
  if (nan) VF_ASSERT(out[1] == 0x7e && out[2] == 0x00, "half NaN encodes as canonical quiet NaN F9 7E00");
  else VF_ASSERT(out[1] == in[0] && out[2] == in[1], "encoding a decoded half reproduces the original bytes");
  free(in); free(out);
#elif MODE == M_HALF_TOTAL
  float f = in_f32();
  unsigned char* out = vf_block(3);
  size_t w = cbor_encode_half(f, out, 3);
  VF_ASSERT(w == 3 && out[0] == 0xf9, "cbor_encode_half is total: three bytes for any float");
  if (ref_is_nan32(f32_bits(f))) VF_ASSERT(out[1] == 0x7e && out[2] == 0, "any NaN encodes as F9 7E00");
  free(out);
#elif MODE == M_SINGLE
  uint32_t b = in_u32();
  unsigned char* in = vf_block(4); for (int i = 0; i < 4; i++) in[i] = b >> (24 - 8 * i);
  float f = _cbor_load_float(in);
  int nan = ref_is_nan32(b);
  if (nan) VF_ASSERT(ref_is_nan32(f32_bits(f)), "single NaN decodes to NaN"); else VF_ASSERT(f32_bits(f) == b, "single decodes bit-exactly");
  unsigned char* out = vf_block(5);
  VF_ASSERT(cbor_encode_single(f, out, 5) == 5 && out[0] == 0xfa, "single encodes to FA + 4 bytes");
  if (nan) VF_ASSERT(out[1] == 0x7f && out[2] == 0xc0 && out[3] == 0 && out[4] == 0, "single NaN encodes as FA 7FC00000");
  else for (int i = 0; i < 4; i++) VF_ASSERT(out[1 + i] == in[i], "single re-encodes to the original bytes");
  free(in); free(out);
#elif MODE == M_DOUBLE
  uint64_t b = in_u64();
  unsigned char* in = vf_block(8); for (int i = 0; i < 8; i++) in[i] = b >> (56 - 8 * i);
  double d = _cbor_load_double(in);
  int nan = ref_is_nan64(b);
  if (nan) VF_ASSERT(ref_is_nan64(f64_bits(d)), "double NaN decodes to NaN"); else VF_ASSERT(f64_bits(d) == b, "double decodes bit-exactly");
  unsigned char* out = vf_block(9);
  VF_ASSERT(cbor_encode_double(d, out, 9) == 9 && out[0] == 0xfb, "double encodes to FB + 8 bytes");
  if (nan) { VF_ASSERT(out[1] == 0x7f && out[2] == 0xf8, "double NaN encodes as FB 7FF8.."); for (int i = 3; i < 9; i++) VF_ASSERT(out[i] == 0, "double NaN payload cleared"); }
  else for (int i = 0; i < 8; i++) VF_ASSERT(out[1 + i] == in[i], "double re-encodes to the original bytes");
  free(in); free(out);
#else
  /* item level */
#if MODE == M_ITEM_HALF
#define W 2
#define HEAD 0xf9
#elif MODE == M_ITEM_SINGLE
#define W 4
#define HEAD 0xfa
#else
#define W 8
#define HEAD 0xfb
#endif
  unsigned char* in = vf_block(1 + W);
  in[0] = HEAD;
  uint64_t bits = 0;
  for (int i = 0; i < W; i++) { in[1 + i] = in_u8(); bits = (bits << 8) | in[1 + i]; }
  struct cbor_load_result res;
  cbor_item_t* it = cbor_load(in, 1 + W, &res);
  VF_ASSERT(it != NULL && res.error.code == CBOR_ERR_NONE && res.read == 1 + W, "float item loads");
  __CPROVER_assume(it != NULL);
  VF_ASSERT(cbor_isa_float_ctrl(it) && cbor_is_float(it), "float item type");
  int nan;
  uint64_t expbits = bits; /* expected output payload */
#if MODE == M_ITEM_HALF
  VF_ASSERT(cbor_float_get_width(it) == CBOR_FLOAT_16, "width recorded as half");
  uint32_t ref = ref_half_to_single_bits((uint16_t)bits, &nan);
  float g = cbor_float_get_float2(it);
  if (nan) { VF_ASSERT(ref_is_nan32(f32_bits(g)), "NaN"); expbits = 0x7e00; } else VF_ASSERT(f32_bits(g) == ref, "half item holds the exact value");
  if (!nan) VF_ASSERT(cbor_float_get_float(it) == (double)g, "generic getter widens exactly");
  cbor_item_t* b2 = cbor_build_float2(g);
#elif MODE == M_ITEM_SINGLE
  VF_ASSERT(cbor_float_get_width(it) == CBOR_FLOAT_32, "width recorded as single");
  nan = ref_is_nan32((uint32_t)bits);
  float g = cbor_float_get_float4(it);
  if (nan) { VF_ASSERT(ref_is_nan32(f32_bits(g)), "NaN"); expbits = 0x7fc00000u; } else VF_ASSERT(f32_bits(g) == (uint32_t)bits, "single item holds the exact bits");
  cbor_item_t* b2 = cbor_build_float4(g);
#else
  VF_ASSERT(cbor_float_get_width(it) == CBOR_FLOAT_64, "width recorded as double");
  nan = ref_is_nan64(bits);
  double g = cbor_float_get_float8(it);
  if (nan) { VF_ASSERT(ref_is_nan64(f64_bits(g)), "NaN"); expbits = 0x7ff8000000000000ULL; } else VF_ASSERT(f64_bits(g) == bits, "double item holds the exact bits");
  cbor_item_t* b2 = cbor_build_float8(g);
#endif
  __CPROVER_assume(b2 != NULL);
  free(in);
  unsigned char* out = vf_block(1 + W);
  unsigned char* out2 = vf_block(1 + W);
  VF_ASSERT(cbor_serialized_size(it) == 1 + W, "size of float item");
  VF_ASSERT(cbor_serialize(it, out, 1 + W) == 1 + W, "decoded float item serializes");
  VF_ASSERT(cbor_serialize(b2, out2, 1 + W) == 1 + W, "built float item serializes");
  VF_ASSERT(out[0] == HEAD && out2[0] == HEAD, "head byte");
  for (int i = 0; i < W; i++) {
    unsigned char e = expbits >> (8 * (W - 1 - i));
    VF_ASSERT(out[1 + i] == e, "decoded item re-serializes to the original bytes (NaN canonical)");
    VF_ASSERT(out2[1 + i] == e, "item built from the value serializes to the original bytes (NaN canonical)");
  }
  cbor_decref(&it); cbor_decref(&b2);
  free(out); free(out2);
#endif
  VF_WITNESS();
}
