/* Helpers for generated tree constructors (cases produced by lib/skeleton.py c_trees). */
#ifndef TREEOPS_H
#define TREEOPS_H
#include "tree.h"
static inline uint64_t rd(const unsigned char* D, int off, int n) { uint64_t v = 0; for (int i = 0; i < 8; i++) if (i < n) v = (v << 8) | D[off + i]; return v; }
static inline float bits_f32(uint32_t b) { union { uint32_t u; float f; } x; x.u = b; return x.f; }
static inline double bits_f64(uint64_t b) { union { uint64_t u; double f; } x; x.u = b; return x.f; }
/* the exact value of a half pattern as a float (half items hold half-representable values, as the properties require) */
static inline float half_val(uint16_t h) { int nan; return bits_f32(ref_half_to_single_bits(h, &nan)); }
/* decoder-obtained tree: D[0..n) in an exact-size heap block that is freed right after cbor_load */
static inline cbor_item_t* load_tree(const unsigned char* D, size_t n) {
  unsigned char* buf = vf_block(n);
  for (size_t i = 0; i < n; i++) buf[i] = D[i];
  struct cbor_load_result res;
  cbor_item_t* it = cbor_load(buf, n, &res);
  free(buf);
  __CPROVER_assume(it != NULL); /* acceptance itself is C02's obligation */
  return it;
}

/* address census of a tree: item headers and every buffer the item owns */
#ifndef MAXADDR
#define MAXADDR 48
#endif
struct addrset { const void* a[MAXADDR]; size_t n; };
static void addr_add(struct addrset* s, const void* p) { if (p != NULL && s->n < MAXADDR) s->a[s->n++] = p; }
static void addr_collect(const cbor_item_t* it, struct addrset* s) {
  addr_add(s, it);
  switch (cbor_typeof(it)) {
    case CBOR_TYPE_BYTESTRING:
      if (cbor_bytestring_is_definite(it)) addr_add(s, it->data);
      else { addr_add(s, it->data); addr_add(s, cbor_bytestring_chunks_handle(it));
             for (size_t i = 0; i < cbor_bytestring_chunk_count(it); i++) addr_collect(cbor_bytestring_chunks_handle(it)[i], s); }
      break;
    case CBOR_TYPE_STRING:
      if (cbor_string_is_definite(it)) addr_add(s, it->data);
      else { addr_add(s, it->data); addr_add(s, cbor_string_chunks_handle(it));
             for (size_t i = 0; i < cbor_string_chunk_count(it); i++) addr_collect(cbor_string_chunks_handle(it)[i], s); }
      break;
    case CBOR_TYPE_ARRAY:
      addr_add(s, it->data);
      for (size_t i = 0; i < cbor_array_size(it); i++) addr_collect(cbor_array_handle(it)[i], s);
      break;
    case CBOR_TYPE_MAP:
      addr_add(s, it->data);
      for (size_t i = 0; i < cbor_map_size(it); i++) { addr_collect(cbor_map_handle(it)[i].key, s); addr_collect(cbor_map_handle(it)[i].value, s); }
      break;
    case CBOR_TYPE_TAG:
      addr_collect(cbor_move(cbor_tag_item(it)), s);
      break;
    default: break;
  }
}
#endif
