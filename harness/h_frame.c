/* C18: read-only operations never write to the items they inspect -- dynamic frame condition checking (goto-instrument --dfcc).
 * Every function of the read-only API gets the contract assigns() (serializers: assigns(the output buffer) and return <= size);
 * DFCC instruments EVERY assignment inside the enforced function and its callees, so a transient write (incref then move) fails
 * even though the final state is restored. Recursive callees are replaced by their contracts (structural induction).
 *
 * Native replay (-DVERIF_NATIVE): the same tree is built inside an mmap arena that is write-protected before the call;
 * any store, even a transient one, is a SIGSEGV. */
#include "ref.h"
#include "cbor/serialization.h"

#define RO __CPROVER_requires(1) __CPROVER_assigns() __CPROVER_ensures(1)
#define WBUF __CPROVER_requires(__CPROVER_w_ok(buffer, buffer_size)) __CPROVER_assigns(__CPROVER_object_upto(buffer, buffer_size)) __CPROVER_ensures(__CPROVER_return_value <= buffer_size)

#ifndef VERIF_NATIVE
void shim_init(void);
#define PROTECT()
#define UNPROTECT()
/* contracts are attached by re-declaration */
bool cbor_isa_uint(const cbor_item_t* item) RO; bool cbor_isa_negint(const cbor_item_t* item) RO; bool cbor_isa_bytestring(const cbor_item_t* item) RO;
bool cbor_isa_string(const cbor_item_t* item) RO; bool cbor_isa_array(const cbor_item_t* item) RO; bool cbor_isa_map(const cbor_item_t* item) RO;
bool cbor_isa_tag(const cbor_item_t* item) RO; bool cbor_isa_float_ctrl(const cbor_item_t* item) RO; cbor_type cbor_typeof(const cbor_item_t* item) RO;
bool cbor_is_int(const cbor_item_t* item) RO; bool cbor_is_float(const cbor_item_t* item) RO; bool cbor_is_bool(const cbor_item_t* item) RO;
bool cbor_is_null(const cbor_item_t* item) RO; bool cbor_is_undef(const cbor_item_t* item) RO; size_t cbor_refcount(const cbor_item_t* item) RO;
uint8_t cbor_get_uint8(const cbor_item_t* item) RO; uint16_t cbor_get_uint16(const cbor_item_t* item) RO; uint32_t cbor_get_uint32(const cbor_item_t* item) RO;
uint64_t cbor_get_uint64(const cbor_item_t* item) RO; uint64_t cbor_get_int(const cbor_item_t* item) RO; cbor_int_width cbor_int_get_width(const cbor_item_t* item) RO;
cbor_float_width cbor_float_get_width(const cbor_item_t* item) RO; float cbor_float_get_float2(const cbor_item_t* item) RO; float cbor_float_get_float4(const cbor_item_t* item) RO;
double cbor_float_get_float8(const cbor_item_t* item) RO; double cbor_float_get_float(const cbor_item_t* item) RO; uint8_t cbor_ctrl_value(const cbor_item_t* item) RO;
bool cbor_get_bool(const cbor_item_t* item) RO; bool cbor_float_ctrl_is_ctrl(const cbor_item_t* item) RO;
size_t cbor_bytestring_length(const cbor_item_t* item) RO; bool cbor_bytestring_is_definite(const cbor_item_t* item) RO; bool cbor_bytestring_is_indefinite(const cbor_item_t* item) RO;
cbor_mutable_data cbor_bytestring_handle(const cbor_item_t* item) RO; cbor_item_t** cbor_bytestring_chunks_handle(const cbor_item_t* item) RO; size_t cbor_bytestring_chunk_count(const cbor_item_t* item) RO;
size_t cbor_string_length(const cbor_item_t* item) RO; bool cbor_string_is_definite(const cbor_item_t* item) RO; bool cbor_string_is_indefinite(const cbor_item_t* item) RO;
cbor_mutable_data cbor_string_handle(const cbor_item_t* item) RO; size_t cbor_string_codepoint_count(const cbor_item_t* item) RO; cbor_item_t** cbor_string_chunks_handle(const cbor_item_t* item) RO;
size_t cbor_string_chunk_count(const cbor_item_t* item) RO;
size_t cbor_array_size(const cbor_item_t* item) RO; size_t cbor_array_allocated(const cbor_item_t* item) RO; bool cbor_array_is_definite(const cbor_item_t* item) RO;
bool cbor_array_is_indefinite(const cbor_item_t* item) RO; cbor_item_t** cbor_array_handle(const cbor_item_t* item) RO;
size_t cbor_map_size(const cbor_item_t* item) RO; size_t cbor_map_allocated(const cbor_item_t* item) RO; bool cbor_map_is_definite(const cbor_item_t* item) RO;
bool cbor_map_is_indefinite(const cbor_item_t* item) RO; struct cbor_pair* cbor_map_handle(const cbor_item_t* item) RO;
uint64_t cbor_tag_value(const cbor_item_t* item) RO;
size_t cbor_serialized_size(const cbor_item_t* item) RO;
size_t cbor_serialize(const cbor_item_t* item, unsigned char* buffer, size_t buffer_size) WBUF;
size_t cbor_serialize_uint(const cbor_item_t* item, unsigned char* buffer, size_t buffer_size) WBUF;
size_t cbor_serialize_negint(const cbor_item_t* item, unsigned char* buffer, size_t buffer_size) WBUF;
size_t cbor_serialize_bytestring(const cbor_item_t* item, unsigned char* buffer, size_t buffer_size) WBUF;
size_t cbor_serialize_string(const cbor_item_t* item, unsigned char* buffer, size_t buffer_size) WBUF;
size_t cbor_serialize_array(const cbor_item_t* item, unsigned char* buffer, size_t buffer_size) WBUF;
size_t cbor_serialize_map(const cbor_item_t* item, unsigned char* buffer, size_t buffer_size) WBUF;
size_t cbor_serialize_tag(const cbor_item_t* item, unsigned char* buffer, size_t buffer_size) WBUF;
size_t cbor_serialize_float_ctrl(const cbor_item_t* item, unsigned char* buffer, size_t buffer_size) WBUF;
#else
#include <sys/mman.h>
#define ARENA (1 << 20)
static unsigned char* arena; static size_t arena_used;
static void* ar_malloc(size_t n) { size_t a = (arena_used + 15) & ~(size_t)15; if (a + n + 16 > ARENA) abort(); *(size_t*)(arena + a) = n; arena_used = a + 16 + n; return arena + a + 16; }
static void* ar_realloc(void* p, size_t n) { void* q = ar_malloc(n); if (p) { size_t o = *(size_t*)((unsigned char*)p - 16); memcpy(q, p, o < n ? o : n); } return q; }
static void ar_free(void* p) { (void)p; }
_cbor_malloc_t _cbor_malloc = ar_malloc; _cbor_realloc_t _cbor_realloc = ar_realloc; _cbor_free_t _cbor_free = ar_free;
static void shim_init(void) { arena = mmap(NULL, ARENA, PROT_READ | PROT_WRITE, MAP_PRIVATE | MAP_ANONYMOUS, -1, 0); if (arena == MAP_FAILED) abort(); }
#define PROTECT() mprotect(arena, ARENA, PROT_READ)
#define UNPROTECT() mprotect(arena, ARENA, PROT_READ | PROT_WRITE)
#endif

#define K_UINT 1
#define K_NEGINT 2
#define K_BSTR 3
#define K_TSTR 4
#define K_IBSTR 5
#define K_ITSTR 6
#define K_ARR 7
#define K_IARR 8
#define K_MAP 9
#define K_IMAP 10
#define K_TAG 11
#define K_FLOAT 12
#define K_CTRL 13

/* Items are laid out by hand (public layout in cbor/data.h), through the configured allocator, with symbolic scalars and symbolic
 * reference counts: no library call precedes the call under check (DFCC allows a single call of the enforced function). */
static void* rawalloc(size_t n) { void* p = _cbor_malloc(n); __CPROVER_assume(p != NULL); return p; }
static cbor_item_t* raw_item(cbor_type t, size_t extra) {
  cbor_item_t* x = (cbor_item_t*)rawalloc(sizeof(cbor_item_t) + extra);
  memset(x, 0, sizeof *x);
  x->type = t; x->refcount = in_size(); __CPROVER_assume(x->refcount >= 1 && x->refcount < SIZE_MAX - 4);
  x->data = extra ? (unsigned char*)x + sizeof(cbor_item_t) : NULL;
  for (size_t i = 0; i < 8; i++) if (i < extra) x->data[i] = in_u8();
  return x;
}
static cbor_item_t* mk_leaf(void) { cbor_item_t* x = raw_item(CBOR_TYPE_UINT, 2); x->metadata.int_metadata.width = CBOR_INT_16; return x; }
static cbor_item_t* mk_str(cbor_type t, size_t len) {
  cbor_item_t* x = raw_item(t, 0);
  x->data = (unsigned char*)rawalloc(len + 1);
  for (size_t i = 0; i < 4; i++) if (i < len) x->data[i] = in_u8();
  if (t == CBOR_TYPE_BYTESTRING) { x->metadata.bytestring_metadata.length = len; x->metadata.bytestring_metadata.type = _CBOR_METADATA_DEFINITE; }
  else { x->metadata.string_metadata.length = len; x->metadata.string_metadata.type = _CBOR_METADATA_DEFINITE; x->metadata.string_metadata.codepoint_count = in_size(); }
  return x;
}
#ifndef NCH
#define NCH 0
#endif
#ifndef FW
#define FW 4
#endif
static cbor_item_t* mk_item(void) {
  cbor_item_t* r = NULL;
#if KIND == K_UINT
  r = raw_item(CBOR_TYPE_UINT, 4); r->metadata.int_metadata.width = CBOR_INT_32;
#elif KIND == K_NEGINT
  r = raw_item(CBOR_TYPE_NEGINT, 1); r->metadata.int_metadata.width = CBOR_INT_8;
#elif KIND == K_BSTR
  r = mk_str(CBOR_TYPE_BYTESTRING, 2);
#elif KIND == K_TSTR
  r = mk_str(CBOR_TYPE_STRING, 2);
#elif KIND == K_IBSTR || KIND == K_ITSTR
  r = raw_item(KIND == K_IBSTR ? CBOR_TYPE_BYTESTRING : CBOR_TYPE_STRING, 0);
  if (KIND == K_IBSTR) r->metadata.bytestring_metadata.type = _CBOR_METADATA_INDEFINITE; else r->metadata.string_metadata.type = _CBOR_METADATA_INDEFINITE;
  { struct cbor_indefinite_string_data* d = (struct cbor_indefinite_string_data*)rawalloc(sizeof *d);
    d->chunk_count = NCH; d->chunk_capacity = NCH + 1; d->chunks = (cbor_item_t**)rawalloc(sizeof(cbor_item_t*) * (NCH + 1));
    for (int i = 0; i < NCH; i++) d->chunks[i] = mk_str(KIND == K_IBSTR ? CBOR_TYPE_BYTESTRING : CBOR_TYPE_STRING, 1);
    r->data = (unsigned char*)d; }
#elif KIND == K_ARR || KIND == K_IARR
  r = raw_item(CBOR_TYPE_ARRAY, 0);
  r->metadata.array_metadata.type = KIND == K_ARR ? _CBOR_METADATA_DEFINITE : _CBOR_METADATA_INDEFINITE;
  r->metadata.array_metadata.end_ptr = NCH; r->metadata.array_metadata.allocated = NCH + (KIND == K_IARR);
  { cbor_item_t** d = (cbor_item_t**)rawalloc(sizeof(cbor_item_t*) * (NCH + 1)); for (int i = 0; i < NCH; i++) d[i] = mk_leaf(); r->data = (unsigned char*)d; }
#elif KIND == K_MAP || KIND == K_IMAP
  r = raw_item(CBOR_TYPE_MAP, 0);
  r->metadata.map_metadata.type = KIND == K_MAP ? _CBOR_METADATA_DEFINITE : _CBOR_METADATA_INDEFINITE;
  r->metadata.map_metadata.end_ptr = NCH; r->metadata.map_metadata.allocated = NCH + (KIND == K_IMAP);
  { struct cbor_pair* d = (struct cbor_pair*)rawalloc(sizeof(struct cbor_pair) * (NCH + 1)); for (int i = 0; i < NCH; i++) { d[i].key = mk_leaf(); d[i].value = mk_str(CBOR_TYPE_STRING, 1); } r->data = (unsigned char*)d; }
#elif KIND == K_TAG
  r = raw_item(CBOR_TYPE_TAG, 0); r->metadata.tag_metadata.value = in_u64(); r->metadata.tag_metadata.tagged_item = mk_leaf();
#elif KIND == K_FLOAT
  r = raw_item(CBOR_TYPE_FLOAT_CTRL, FW == 2 ? 4 : FW); r->metadata.float_ctrl_metadata.width = FW == 2 ? CBOR_FLOAT_16 : FW == 4 ? CBOR_FLOAT_32 : CBOR_FLOAT_64;
#else
  r = raw_item(CBOR_TYPE_FLOAT_CTRL, 0); r->metadata.float_ctrl_metadata.width = CBOR_FLOAT_0; r->metadata.float_ctrl_metadata.ctrl = 20 + (in_u8() & 3);
#endif
  return r;
}

/* exactly one call of the function under check (-DFN=...), enforced by goto-instrument --enforce-contract[-rec] FN */
static void calls(const cbor_item_t* it) {
#ifdef CALL_SERIALIZE
  size_t bn = in_size(); __CPROVER_assume(bn <= 24);
  unsigned char* out = (unsigned char*)malloc(bn); __CPROVER_assume(out != NULL);
  size_t w = FN(it, out, bn);
  VF_ASSERT(w <= bn, "serializer reports no more than the buffer holds");
  free(out);
#else
  (void)FN(it);
#endif
}

void harness(void) {
  shim_init();
  cbor_item_t* it = mk_item();
  PROTECT();
  calls(it);
  UNPROTECT();
  VF_WITNESS();
}
#ifndef VERIF_NATIVE
int main(void) { harness(); return 0; }
#endif
