/* Shared harness prelude. The same harness source is compiled
 *   - by goto-cc for CBMC  (inputs are nondeterministic; every input value is logged to VF_IN so that a
 *     counterexample trace yields the exact input sequence), and
 *   - by gcc -DVERIF_NATIVE with ASan/UBSan for replay (inputs are read back from the replay file).
 */
#ifndef VF_H
#define VF_H
#include <assert.h>
#include <stdbool.h>
#include <stddef.h>
#include <stdint.h>
#include <stdio.h>
#include <stdlib.h>
#include <string.h>

#ifdef VERIF_NATIVE
#include <unistd.h>
uint64_t vf_next(void);
#define __CPROVER_assume(c)                                              \
  do {                                                                   \
    if (!(c)) {                                                          \
      fprintf(stderr, "VF_ASSUME violated: %s at %s:%d\n", #c, __FILE__, __LINE__); \
      _exit(77);                                                         \
    }                                                                    \
  } while (0)
#define VF_ASSERT(c, msg)                                                                   \
  do {                                                                                      \
    if (!(c)) {                                                                             \
      fprintf(stderr, "VF_ASSERT failed: %s [%s] at %s:%d\n", msg, #c, __FILE__, __LINE__); \
      abort();                                                                              \
    }                                                                                       \
  } while (0)
#define VF_WITNESS() ((void)0)
static inline uint8_t in_u8(void) { return (uint8_t)vf_next(); }
static inline uint16_t in_u16(void) { return (uint16_t)vf_next(); }
static inline uint32_t in_u32(void) { return (uint32_t)vf_next(); }
static inline uint64_t in_u64(void) { return (uint64_t)vf_next(); }
static inline size_t in_size(void) { return (size_t)vf_next(); }
static inline bool in_bool(void) { return vf_next() != 0; }
#else
extern uint64_t VF_IN;
uint8_t nondet_u8(void);
uint16_t nondet_u16(void);
uint32_t nondet_u32(void);
uint64_t nondet_u64(void);
size_t nondet_size(void);
_Bool nondet_bool(void);
#define VF_ASSERT(c, msg) __CPROVER_assert((c), msg)
#ifdef VF_NO_WITNESS
#define VF_WITNESS() ((void)0) /* path-exploration pre-pass: the witness is checked by the second, ordinary run */
#else
#define VF_WITNESS() __CPROVER_assert(0, "VF_WITNESS reachability (expected to fail)")
#endif
static inline uint8_t in_u8(void) { uint8_t v = nondet_u8(); VF_IN = v; return v; }
static inline uint16_t in_u16(void) { uint16_t v = nondet_u16(); VF_IN = v; return v; }
static inline uint32_t in_u32(void) { uint32_t v = nondet_u32(); VF_IN = v; return v; }
static inline uint64_t in_u64(void) { uint64_t v = nondet_u64(); VF_IN = v; return v; }
static inline size_t in_size(void) { size_t v = nondet_size(); VF_IN = v; return v; }
static inline bool in_bool(void) { _Bool v = nondet_bool(); VF_IN = v; return v; }
#endif

static inline float in_f32(void) { union { uint32_t u; float f; } x; x.u = in_u32(); return x.f; }
static inline double in_f64(void) { union { uint64_t u; double f; } x; x.u = in_u64(); return x.f; }
static inline uint32_t f32_bits(float f) { union { uint32_t u; float f; } x; x.f = f; return x.u; }
static inline uint64_t f64_bits(double f) { union { uint64_t u; double f; } x; x.f = f; return x.u; }

/* exact-size heap block: a one-byte over-read or over-write is an object-bounds violation (CBMC) / red zone (ASan) */
static inline unsigned char* vf_block(size_t n) {
  unsigned char* p = (unsigned char*)malloc(n);
  __CPROVER_assume(p != 0);
  return p;
}
static inline unsigned char* vf_sym_block(size_t n) {
  unsigned char* p = vf_block(n);
  for (size_t i = 0; i < n; i++) p[i] = in_u8();
  return p;
}

void harness(void);
#endif
