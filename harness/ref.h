/* Independent reference for one CBOR item head, written from RFC 8949 section 3 / Appendix C.
 * No 256-entry table, no switch over initial bytes: major type and additional information only. */
#ifndef REF_H
#define REF_H
#include "rec.h"

struct ref_head {
  int reserved;    /* initial byte not well-formed (28..30, 31 on mt 0/1/6) or outside libcbor's profile (simple < 20, 1-byte simple) */
  unsigned mt, ai;
  size_t argn;     /* following argument bytes */
  int complete;    /* 1 + argn bytes available */
  uint64_t arg;    /* argument value (valid when complete) */
  int slot;        /* expected callback (valid when complete) */
  uint64_t val;    /* expected callback scalar: value, or float bit pattern as delivered (f2: as binary32 bits) */
  int is_nan;      /* float NaN: compared by class */
  int has_payload; /* definite string: arg payload bytes follow */
};

/* binary16 -> binary32 bit pattern, integer arithmetic only (RFC 8949 Appendix D semantics, IEEE 754) */
static inline uint32_t ref_half_to_single_bits(uint16_t h, int* is_nan) {
  uint32_t sign = (uint32_t)(h & 0x8000u) << 16;
  uint32_t e = (h >> 10) & 0x1f, m = h & 0x3ff;
  *is_nan = 0;
  if (e == 31) { if (m) { *is_nan = 1; return sign | 0x7fc00000u; } return sign | 0x7f800000u; }
  if (e == 0) {
    if (m == 0) return sign;
    /* subnormal half = m * 2^-24: normalise */
    int sh = 0;
    while (!(m & 0x400)) { m <<= 1; sh++; }
    m &= 0x3ff;
    return sign | ((uint32_t)(127 - 15 - sh + 1) << 23) | (m << 13);
  }
  return sign | ((e + 127 - 15) << 23) | (m << 13);
}

static inline int ref_is_nan32(uint32_t b) { return ((b >> 23) & 0xff) == 0xff && (b & 0x7fffff) != 0; }
static inline int ref_is_nan64(uint64_t b) { return ((b >> 52) & 0x7ff) == 0x7ff && (b & 0xfffffffffffffULL) != 0; }

static inline struct ref_head ref_decode_head(const unsigned char* b, size_t n) {
  struct ref_head h;
  memset(&h, 0, sizeof h);
  unsigned ib = b[0];
  h.mt = ib >> 5; h.ai = ib & 31;
  h.reserved = (h.ai >= 28 && h.ai <= 30) || (h.ai == 31 && (h.mt == 0 || h.mt == 1 || h.mt == 6)) ||
               (h.mt == 7 && (h.ai < 20 || h.ai == 24));
  if (h.reserved) return h;
  h.argn = h.ai < 24 ? 0 : h.ai == 24 ? 1 : h.ai == 25 ? 2 : h.ai == 26 ? 4 : h.ai == 27 ? 8 : 0;
  h.complete = n >= 1 + h.argn;
  if (!h.complete) return h;
  h.arg = h.ai < 24 ? h.ai : 0;
  for (size_t i = 0; i < h.argn; i++) h.arg = (h.arg << 8) | b[1 + i];
  int w = h.ai < 25 ? 0 : h.ai == 25 ? 1 : h.ai == 26 ? 2 : 3; /* width class of ints */
  h.val = h.arg;
  switch (h.mt) {
    case 0: h.slot = S_UINT8 + w; break;
    case 1: h.slot = S_NEGINT8 + w; break;
    case 2: if (h.ai == 31) h.slot = S_BS_START; else { h.slot = S_BS; h.has_payload = 1; } break;
    case 3: if (h.ai == 31) h.slot = S_STR_START; else { h.slot = S_STR; h.has_payload = 1; } break;
    case 4: h.slot = h.ai == 31 ? S_IARR : S_ARR; break;
    case 5: h.slot = h.ai == 31 ? S_IMAP : S_MAP; break;
    case 6: h.slot = S_TAG; break;
    default:
      if (h.ai == 20) { h.slot = S_BOOL; h.val = 0; }
      else if (h.ai == 21) { h.slot = S_BOOL; h.val = 1; }
      else if (h.ai == 22) h.slot = S_NULL;
      else if (h.ai == 23) h.slot = S_UNDEF;
      else if (h.ai == 25) { h.slot = S_F2; h.val = ref_half_to_single_bits((uint16_t)h.arg, &h.is_nan); }
      else if (h.ai == 26) { h.slot = S_F4; h.is_nan = ref_is_nan32((uint32_t)h.arg); }
      else if (h.ai == 27) { h.slot = S_F8; h.is_nan = ref_is_nan64(h.arg); }
      else h.slot = S_BREAK;
  }
  return h;
}

static inline int slot_has_scalar(int s) {
  return (s >= S_UINT8 && s <= S_NEGINT64) || s == S_ARR || s == S_MAP || s == S_TAG || s == S_BOOL || s == S_F2 || s == S_F4 || s == S_F8;
}
#endif
