/* C09: feeding a stream in fragments.
 * M_LEMMA : two calls on a common prefix, every buffer <= MAXN bytes, every pair of lengths n1 <= n2 (stateless decoder =>
 *           the client protocol reduces to this lemma; see DESIGN.md C09).
 * M_DRIVER: the documented client loop on a fully symbolic stream of <= MAXN bytes with symbolic arrival sizes, events
 *           compared with an independent tokeniser (reference head decoder) of the whole stream.
 * M_SKEL  : same driver on a stream with concrete head bytes (-DSK=...) and symbolic data bytes; arrival sizes symbolic. */
#define NREC 2
#include "ref.h"
#define M_LEMMA 1
#define M_DRIVER 2
#define M_SKEL 3
#ifndef MAXN
#define MAXN 12
#endif

#if MODE == M_LEMMA
void harness(void) {
  size_t n1 = in_size(), n2 = in_size();
  __CPROVER_assume(n1 <= n2 && n2 <= MAXN);
  unsigned char* b2 = vf_block(n2);
  unsigned char* b1 = vf_block(n1);
  for (size_t i = 0; i < MAXN; i++) if (i < n2) { b2[i] = in_u8(); if (i < n1) b1[i] = b2[i]; }
  cur = 0; struct cbor_decoder_result r1 = cbor_stream_decode(b1, n1, &REC_CBS, 0);
  cur = 1; struct cbor_decoder_result r2 = cbor_stream_decode(b2, n2, &REC_CBS, 0);
  if (r1.status == CBOR_DECODER_FINISHED) {
    VF_ASSERT(r2.status == CBOR_DECODER_FINISHED && r2.read == r1.read, "more bytes never change a FINISHED result");
    VF_ASSERT(R[0].calls == 1 && R[1].calls == 1 && R[0].slot == R[1].slot, "same callback with more bytes");
    if (R[0].slot == S_BS || R[0].slot == S_STR) VF_ASSERT(R[0].len == R[1].len && (R[0].p - b1) == (R[1].p - b2), "same payload with more bytes");
    else if (slot_has_scalar(R[0].slot) && R[0].slot != S_F2 && R[0].slot != S_F4 && R[0].slot != S_F8) VF_ASSERT(R[0].a == R[1].a, "same argument with more bytes");
    else if (slot_has_scalar(R[0].slot)) VF_ASSERT(R[0].a == R[1].a || (R[0].slot == S_F8 ? ref_is_nan64(R[0].a) && ref_is_nan64(R[1].a) : ref_is_nan32(R[0].a) && ref_is_nan32(R[1].a)), "same float with more bytes");
  } else if (r1.status == CBOR_DECODER_ERROR) {
    VF_ASSERT(r2.status == CBOR_DECODER_ERROR, "ERROR is independent of the length");
  } else {
    VF_ASSERT(r1.status == CBOR_DECODER_NEDATA && R[0].calls == 0 && r1.read == 0, "NEDATA: nothing consumed, nothing delivered");
    VF_ASSERT(r1.required > n1, "each wait asks for strictly more than is buffered");
    if (n2 < r1.required) {
      VF_ASSERT(r2.status == CBOR_DECODER_NEDATA, "still NEDATA while fewer than `required` bytes are buffered");
      VF_ASSERT(r2.required >= r1.required, "required never shrinks as bytes arrive");
    } else {
      VF_ASSERT(r2.status != CBOR_DECODER_ERROR || n1 == 0, "a pending item never turns into ERROR (the initial byte was already seen)");
    }
    if (r2.status == CBOR_DECODER_FINISHED) VF_ASSERT(r2.read >= r1.required, "never asks for more than the item really occupies");
  }
  free(b1); free(b2);
  VF_WITNESS();
}
#else

#define MAXEV (MAXN + 1)
struct ev { int slot; uint64_t a; size_t off; uint64_t len; int nan; };
static struct ev EV[MAXEV]; static size_t nev;
static struct ev XV[MAXEV]; static size_t nxv; static int xst; static size_t xend;

#if MODE == M_SKEL
static const int SKT[] = {SK};
#undef MAXN
#define MAXN (sizeof(SKT) / sizeof(SKT[0]))
#endif

void harness(void) {
#if MODE == M_SKEL
  size_t n = MAXN;
  unsigned char* s = vf_block(n);
  for (size_t i = 0; i < MAXN; i++) s[i] = SKT[i] < 0 ? in_u8() : (unsigned char)SKT[i];
#else
  size_t n = in_size();
  __CPROVER_assume(n <= MAXN);
  unsigned char* s = vf_sym_block(n);
#endif
  /* independent tokenisation of the whole stream */
  size_t pos = 0; xst = 0;
  for (size_t it = 0; it <= MAXN; it++) {
    if (pos >= n) break;
    struct ref_head h = ref_decode_head(s + pos, n - pos);
    if (h.reserved) { xst = 2; break; }
    if (!h.complete || (h.has_payload && h.arg > n - pos - 1 - h.argn)) { xst = 1; break; }
    XV[nxv].slot = h.slot; XV[nxv].a = slot_has_scalar(h.slot) ? h.val : 0; XV[nxv].nan = h.is_nan;
    XV[nxv].off = h.has_payload ? pos + 1 + h.argn : 0; XV[nxv].len = h.has_payload ? h.arg : 0;
    nxv++;
    pos += 1 + h.argn + (h.has_payload ? h.arg : 0);
  }
  xend = pos;

#ifdef CUTS
  /* concrete fragmentation schedules: c == 0 byte-at-a-time; 0 < c < n two fragments cut at c; c == n one shot */
  for (size_t c = 0; c <= MAXN; c++) {
    nev = 0;
#endif
  /* the documented client: buffer, decode, advance by read on FINISHED, wait for `required` on NEDATA */
  size_t have = 0, p = 0, want = 1; int st = 0;
  for (size_t it = 0; it <= 2 * MAXN + 1; it++) {
    if (have < n && have - p < want) { /* wait: an arbitrary non-empty fragment arrives */
      #ifdef CUTS
      size_t k = c == 0 ? 1 : (have < c ? c - have : n - have);
#else
      size_t k = in_size(); __CPROVER_assume(k >= 1 && k <= n - have);
#endif
      have += k; continue;
    }
    if (p >= have) { if (have == n) break; want = 1; continue; }
    cur = 0; R[0].calls = 0;
    struct cbor_decoder_result r = cbor_stream_decode(s + p, have - p, &REC_CBS, 0);
    if (r.status == CBOR_DECODER_FINISHED) {
      VF_ASSERT(R[0].calls == 1 && nev < MAXEV, "one event per FINISHED");
      EV[nev].slot = R[0].slot; EV[nev].a = slot_has_scalar(R[0].slot) ? R[0].a : 0;
      int str = R[0].slot == S_BS || R[0].slot == S_STR;
      EV[nev].off = str ? (size_t)(R[0].p - s) : 0; EV[nev].len = str ? R[0].len : 0;
      nev++;
      p += r.read; want = 1;
    } else if (r.status == CBOR_DECODER_NEDATA) {
      VF_ASSERT(R[0].calls == 0, "no event on NEDATA");
      VF_ASSERT(r.required > have - p, "each wait asks for strictly more bytes than are buffered");
      { /* never more than the pending item really occupies (when the stream holds it completely) */
        struct ref_head h = ref_decode_head(s + p, n - p);
        if (!h.reserved && h.complete && !(h.has_payload && h.arg > n - p - 1 - h.argn))
          VF_ASSERT(r.required <= 1 + h.argn + (h.has_payload ? h.arg : 0), "wait never exceeds the pending item's real length");
      }
      want = r.required;
      if (have == n) { st = 1; break; }
    } else { st = 2; break; }
  }
  VF_ASSERT(st == xst, "fragmented delivery ends in the same state as the tokenisation (complete / truncated / malformed)");
  VF_ASSERT(p == xend, "fragmented delivery stops at the same offset");
  VF_ASSERT(nev == nxv, "same number of events: nothing lost or duplicated at fragment boundaries");
  for (size_t i = 0; i < MAXEV; i++) if (i < nev && i < nxv) {
    VF_ASSERT(EV[i].slot == XV[i].slot, "same callback, same order");
    VF_ASSERT(EV[i].off == XV[i].off && EV[i].len == XV[i].len, "same payload position and length");
    if (XV[i].nan) VF_ASSERT(XV[i].slot == S_F8 ? ref_is_nan64(EV[i].a) : ref_is_nan32((uint32_t)EV[i].a), "NaN stays NaN");
    else VF_ASSERT(EV[i].a == XV[i].a, "same argument");
  }
  if (xst == 0) VF_ASSERT(p == n, "a stream that ends on an item boundary is delivered completely");
#ifdef CUTS
  }
#endif
  free(s);
  VF_WITNESS();
}
#endif
