/* DFCC obligations link everything except allocators.c (goto-instrument --dfcc crashes on an address-of malloc/realloc/free symbol
 * without source location): thin wrappers stand in for the default allocator triple. allocators.c itself is covered by C13. */
#ifndef VERIF_NATIVE
#include <stdlib.h>
#include "cbor/common.h"
static void* w_malloc(size_t n) { return malloc(n); }
static void* w_realloc(void* p, size_t n) { return realloc(p, n); }
static void w_free(void* p) { free(p); }
_cbor_malloc_t _cbor_malloc;
_cbor_realloc_t _cbor_realloc;
_cbor_free_t _cbor_free;
void shim_init(void) { _cbor_malloc = w_malloc; _cbor_realloc = w_realloc; _cbor_free = w_free; }
#endif
