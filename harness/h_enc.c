/* C10 / C07(a): one low-level encoder, value symbolic over its whole type, buffer size symbolic 0..10.
 * -DCALL=<encoder call on (v,buf,n)>  -DFORM=<F_*>  -DMT=<major type>  [-DCONSTB=<byte>]  -DSLOT=<expected callback> */
#include "ref.h"
#include "cbor/encoding.h"
#define F_IMM8 1
#define F_FIX16 2
#define F_FIX32 3
#define F_FIX64 4
#define F_SHORTEST 5
#define F_BYTE 6
#define F_BOOL 7
#define F_HALF 8
#define F_SINGLE 9
#define F_DOUBLE 10
#ifndef MAXB
#define MAXB 10
#endif

static void* no_malloc(size_t n) { VF_ASSERT(0, "low-level encoder / streaming decoder requested memory (malloc)"); return 0; }
static void* no_realloc(void* p, size_t n) { VF_ASSERT(0, "low-level encoder / streaming decoder requested memory (realloc)"); return 0; }
static void no_free(void* p) { VF_ASSERT(0, "low-level encoder / streaming decoder released memory (free)"); }

void harness(void) {
  cbor_set_allocs(no_malloc, no_realloc, no_free);
  size_t n = in_size();
  __CPROVER_assume(n <= MAXB);
  unsigned char* buf = vf_sym_block(n);
  unsigned char snap[MAXB];
  for (size_t i = 0; i < MAXB; i++) if (i < n) snap[i] = buf[i];

  uint64_t v = in_u64();
  unsigned char exp[9];
  size_t explen = 0;
  int nan = 0;
  uint64_t dec_val = v; /* value the decoder must hand to the callback */
#if FORM == F_IMM8
  v &= 0xff;
  if (v <= 23) { exp[0] = (MT << 5) | v; explen = 1; } else { exp[0] = (MT << 5) | 24; exp[1] = v; explen = 2; }
  dec_val = v;
#elif FORM == F_FIX16
  v &= 0xffff; exp[0] = (MT << 5) | 25; exp[1] = v >> 8; exp[2] = v; explen = 3; dec_val = v;
#elif FORM == F_FIX32
  v &= 0xffffffffu; exp[0] = (MT << 5) | 26; for (int i = 0; i < 4; i++) exp[1 + i] = v >> (8 * (3 - i)); explen = 5; dec_val = v;
#elif FORM == F_FIX64
  exp[0] = (MT << 5) | 27; for (int i = 0; i < 8; i++) exp[1 + i] = v >> (8 * (7 - i)); explen = 9;
#elif FORM == F_SHORTEST
  if (v <= 23) { exp[0] = (MT << 5) | v; explen = 1; }
  else if (v < 0x100) { exp[0] = (MT << 5) | 24; exp[1] = v; explen = 2; }
  else if (v < 0x10000) { exp[0] = (MT << 5) | 25; exp[1] = v >> 8; exp[2] = v; explen = 3; }
  else if (v < 0x100000000ULL) { exp[0] = (MT << 5) | 26; for (int i = 0; i < 4; i++) exp[1 + i] = v >> (8 * (3 - i)); explen = 5; }
  else { exp[0] = (MT << 5) | 27; for (int i = 0; i < 8; i++) exp[1 + i] = v >> (8 * (7 - i)); explen = 9; }
#elif FORM == F_BYTE
  exp[0] = CONSTB; explen = 1;
#elif FORM == F_BOOL
  v &= 1; exp[0] = v ? 0xf5 : 0xf4; explen = 1; dec_val = v;
#elif FORM == F_HALF
  /* domain restricted to half-representable floats: v is the 16-bit pattern, the float handed in is its exact value */
  v &= 0xffff;
  uint32_t sb = ref_half_to_single_bits((uint16_t)v, &nan);
  union { uint32_t u; float f; } hx; hx.u = sb;
  uint64_t hv = nan ? 0x7e00 : v;
  exp[0] = 0xf9; exp[1] = hv >> 8; exp[2] = hv; explen = 3;
  dec_val = nan ? 0 : sb;
#define FVAL hx.f
#elif FORM == F_SINGLE
  v &= 0xffffffffu;
  union { uint32_t u; float f; } sx; sx.u = (uint32_t)v;
  nan = ref_is_nan32((uint32_t)v);
  { uint32_t ev = nan ? 0x7fc00000u : (uint32_t)v; exp[0] = 0xfa; for (int i = 0; i < 4; i++) exp[1 + i] = ev >> (8 * (3 - i)); explen = 5; }
  dec_val = v;
#define FVAL sx.f
#elif FORM == F_DOUBLE
  union { uint64_t u; double f; } dx; dx.u = v;
  nan = ref_is_nan64(v);
  { uint64_t ev = nan ? 0x7ff8000000000000ULL : v; exp[0] = 0xfb; for (int i = 0; i < 8; i++) exp[1 + i] = ev >> (8 * (7 - i)); explen = 9; }
#define FVAL dx.f
#endif

  size_t w = CALL;

  if (n < explen) {
    VF_ASSERT(w == 0, "encoder returns 0 when the head does not fit");
    for (size_t i = 0; i < MAXB; i++) if (i < n) VF_ASSERT(buf[i] == snap[i], "buffer untouched when the encoder returns 0");
  } else {
    VF_ASSERT(w == explen, "encoder returns the RFC 8949 head length");
    for (size_t i = 0; i < 9; i++) if (i < explen) VF_ASSERT(buf[i] == exp[i], "encoder writes exactly the RFC 8949 head bytes");
    for (size_t i = 0; i < MAXB; i++) if (i >= explen && i < n) VF_ASSERT(buf[i] == snap[i], "bytes past the head are untouched");
    /* inverse: the streaming decoder on exactly the bytes written */
    unsigned char* b2 = vf_block(w);
    for (size_t i = 0; i < 9; i++) if (i < w) b2[i] = buf[i];
    cur = 0;
    struct cbor_decoder_result r = cbor_stream_decode(b2, w, &REC_CBS, 0);
#if SLOT == S_NONE /* ctrl: only 20..23 are decodable */
    if (v >= 20 && v <= 23) {
      VF_ASSERT(r.status == CBOR_DECODER_FINISHED && r.read == w && R[0].calls == 1, "assigned simple value decodes");
      VF_ASSERT(R[0].slot == (v == 22 ? S_NULL : v == 23 ? S_UNDEF : S_BOOL), "simple value callback kind");
      if (v < 22) VF_ASSERT(R[0].a == v - 20, "boolean value");
    } else {
      VF_ASSERT(r.status == CBOR_DECODER_ERROR && R[0].calls == 0 && r.read == 0, "unassigned simple value is not decodable");
    }
#elif SLOT == S_BS || SLOT == S_STR
    if (v == 0) {
      VF_ASSERT(r.status == CBOR_DECODER_FINISHED && r.read == w && R[0].calls == 1 && R[0].slot == SLOT && R[0].len == 0, "empty string head decodes");
    } else {
      VF_ASSERT(r.status == CBOR_DECODER_NEDATA && R[0].calls == 0 && r.read == 0 && r.required > w, "string head alone needs its payload");
      if (v <= SIZE_MAX - w) VF_ASSERT(r.required == w + v, "required = head + declared length");
    }
#else
    VF_ASSERT(r.status == CBOR_DECODER_FINISHED, "decoder accepts the encoder's bytes");
    VF_ASSERT(r.read == w, "decoder consumes exactly the bytes written");
    VF_ASSERT(R[0].calls == 1, "exactly one callback");
#if FORM == F_IMM8 || FORM == F_SHORTEST
    /* the callback slot is the one of the width actually used */
    { int base = (SLOT == S_UINT8 || SLOT == S_NEGINT8) ? SLOT : -1;
      if (base >= 0) { int wd = explen <= 2 ? 0 : explen == 3 ? 1 : explen == 5 ? 2 : 3; VF_ASSERT(R[0].slot == base + wd, "callback of the matching kind and width"); }
      else VF_ASSERT(R[0].slot == SLOT, "callback of the matching kind"); }
#else
    VF_ASSERT(R[0].slot == SLOT, "callback of the matching kind");
#endif
    if (slot_has_scalar(SLOT)) {
      if (nan) { if (SLOT == S_F8) VF_ASSERT(ref_is_nan64(R[0].a), "NaN round-trips as NaN"); else VF_ASSERT(ref_is_nan32((uint32_t)R[0].a), "NaN round-trips as NaN"); }
      else VF_ASSERT(R[0].a == dec_val, "decoded value identical to the encoded one");
    }
#endif
    free(b2);
  }
  free(buf);
  VF_WITNESS();
}
