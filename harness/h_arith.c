/* C20: size arithmetic on the real functions, all operands symbolic 64-bit values. */
#include "alloc.h"
#include "cbor/internal/memory_utils.h"
#include "cbor/internal/builder_callbacks.h"
#include "cbor/internal/stack.h"
#define M_MUL 1
#define M_ADD 2
#define M_ALLOC_MULTIPLE 3
#define M_REALLOC_MULTIPLE 4
#define M_HIGHEST_BIT 5
#define M_HEADER_SIZE 6
#define M_SIZE_STRING 7      /* cbor_serialized_size of a definite (byte|text) string with ANY length */
#define M_SIZE_COMPOSITE 8   /* array / map / tag / chunked string of up to 3 such strings: exact 128-bit total or 0 */
#define M_BUILDER_LEN 9      /* decoder builder callbacks with ANY 64-bit declared count */
#define M_NEW_DEFINITE 10    /* cbor_new_definite_array/map with ANY size */
size_t _cbor_encoded_header_size(uint64_t size);
typedef unsigned __int128 u128;

static size_t ref_hdr(uint64_t v) { return v < 24 ? 1 : v < 0x100 ? 2 : v < 0x10000 ? 3 : v < 0x100000000ULL ? 5 : 9; }

/* a definite string item whose length field is arbitrary; data is never dereferenced by cbor_serialized_size */
static cbor_item_t* fake_string(bool text, size_t len) {
  cbor_item_t* it = text ? cbor_new_definite_string() : cbor_new_definite_bytestring();
  __CPROVER_assume(it != NULL);
  if (text) it->metadata.string_metadata.length = len; else it->metadata.bytestring_metadata.length = len;
  return it;
}
static u128 str_total(size_t len) { return (u128)ref_hdr(len) + len; }

void harness(void) {
#if MODE == M_MUL
  size_t a = in_size(), b = in_size();
  bool ok = _cbor_safe_to_multiply(a, b);
  u128 p = (u128)a * (u128)b;
  if (ok) VF_ASSERT(p <= (u128)SIZE_MAX, "safe_to_multiply implies the product fits in size_t");
  /* not over-conservative for the cases the library relies on: small factor times anything up to SIZE_MAX/factor/2 */
  if (a <= 1 || b <= 1) VF_ASSERT(ok, "multiplying by 0 or 1 is always safe");
#elif MODE == M_ADD
  size_t a = in_size(), b = in_size();
  u128 s = (u128)a + b;
  VF_ASSERT(_cbor_safe_to_add(a, b) == (s <= SIZE_MAX), "safe_to_add iff no carry");
  size_t r = _cbor_safe_signaling_add(a, b);
  if (a == 0 || b == 0) VF_ASSERT(r == 0, "signaling add propagates 0");
  else VF_ASSERT(r == (s <= SIZE_MAX ? (size_t)s : 0), "signaling add is the exact sum or 0");
#elif MODE == M_ALLOC_MULTIPLE || MODE == M_REALLOC_MULTIPLE
  /* REGION 1: any (size,count); the allocator records the request and refuses (pointer outcome concrete).
   * REGION 2: products up to 64 bytes; the allocator grants, the block must really hold size*count bytes. */
  a_install();
  size_t sz = in_size(), cnt = in_size();
#if REGION == 1
  a_inject = true; a_failstop = true; a_failk = 0;
#else
  __CPROVER_assume(sz <= 64 && cnt <= 64 && sz * cnt <= 64);
#endif
  u128 p = (u128)sz * cnt;
#if MODE == M_ALLOC_MULTIPLE
  unsigned char* r = _cbor_alloc_multiple(sz, cnt);
  size_t calls = a_malloc_calls, asked = a_last_size;
#else
  unsigned char* r = _cbor_realloc_multiple(NULL, sz, cnt);
  size_t calls = a_realloc_calls, asked = a_last_realloc_size;
#endif
  if (calls) { VF_ASSERT(calls == 1, "one request"); VF_ASSERT(p <= SIZE_MAX, "allocator is never asked for a wrapped product"); VF_ASSERT(asked == sz * cnt, "allocator asked for exactly n*s bytes"); }
  else VF_ASSERT(r == NULL, "oversize request fails without calling the allocator");
#if REGION == 1
  VF_ASSERT(r == NULL, "refused request is reported as NULL");
#else
  VF_ASSERT(calls == 1 && r != NULL, "small request is forwarded and granted");
  if (sz * cnt > 0) { r[0] = 1; r[sz * cnt - 1] = 2; } /* the whole product is addressable */
  a_free(r);
#endif
#elif MODE == M_HIGHEST_BIT
  size_t a = in_size();
  size_t hb = _cbor_highest_bit(a);
  VF_ASSERT(hb <= 64, "bit index range");
  if (a == 0) VF_ASSERT(hb == 0, "highest_bit(0) = 0");
  else { VF_ASSERT((a >> (hb - 1)) == 1, "highest_bit is the position of the top set bit"); }
#elif MODE == M_HEADER_SIZE
  uint64_t v = in_u64();
  VF_ASSERT(_cbor_encoded_header_size(v) == ref_hdr(v), "header size is the shortest-head size");
#elif MODE == M_SIZE_STRING
  size_t len = in_size();
  cbor_item_t* s = fake_string(KIND == 2, len);
  size_t got = cbor_serialized_size(s);
  u128 t = str_total(len);
  VF_ASSERT(got == (t <= SIZE_MAX ? (size_t)t : 0), "string size is the exact total or 0");
  free(s);
#elif MODE == M_SIZE_COMPOSITE
  size_t l1 = in_size(), l2 = in_size(), l3 = in_size();
  cbor_item_t* s1 = fake_string(false, l1); cbor_item_t* s2 = fake_string(KIND == 4 ? false : true, l2); cbor_item_t* s3 = fake_string(false, l3);
  u128 t;
#if KIND == 1 /* indefinite array of three */
  cbor_item_t* c = cbor_new_indefinite_array(); __CPROVER_assume(c);
  bool ok = cbor_array_push(c, s1) && cbor_array_push(c, s2) && cbor_array_push(c, s3); __CPROVER_assume(ok);
  t = 2 + str_total(l1) + str_total(l2) + str_total(l3);
#elif KIND == 2 /* definite map {s1: s2} inside a tag with symbolic value */
  cbor_item_t* m = cbor_new_definite_map(1); __CPROVER_assume(m);
  bool ok = cbor_map_add(m, (struct cbor_pair){.key = s1, .value = s2}); __CPROVER_assume(ok);
  uint64_t tv = in_u64();
  cbor_item_t* c = cbor_build_tag(tv, m); __CPROVER_assume(c);
  t = ref_hdr(tv) + (u128)1 + str_total(l1) + str_total(l2);
  (void)s3;
#elif KIND == 3 /* definite array of two + nested definite array of one */
  cbor_item_t* in = cbor_new_definite_array(1); __CPROVER_assume(in);
  cbor_item_t* c = cbor_new_definite_array(3); __CPROVER_assume(c);
  bool ok = cbor_array_push(in, s3) && cbor_array_push(c, s1) && cbor_array_push(c, in) && cbor_array_push(c, s2); __CPROVER_assume(ok);
  t = (u128)1 + str_total(l1) + 1 + str_total(l3) + str_total(l2);
#else /* KIND 4: chunked byte string of three chunks */
  cbor_item_t* c = cbor_new_indefinite_bytestring(); __CPROVER_assume(c);
  bool ok = cbor_bytestring_add_chunk(c, s1) && cbor_bytestring_add_chunk(c, s2) && cbor_bytestring_add_chunk(c, s3); __CPROVER_assume(ok);
  t = 2 + str_total(l1) + str_total(l2) + str_total(l3);
#endif
  size_t got = cbor_serialized_size(c);
  if (t <= SIZE_MAX) VF_ASSERT(got == (size_t)t, "composite size is the exact mathematical total");
  else VF_ASSERT(got == 0, "composite size that does not fit in size_t is reported as 0");
#elif MODE == M_BUILDER_LEN
  /* REGION 1: declared count > 8: the item header is granted, every later request is recorded and refused.
   * REGION 2: declared count 1..8: everything is granted. */
  a_install();
  struct _cbor_stack stack = _cbor_stack_init();
  struct _cbor_decoder_context ctx = {.creation_failed = false, .syntax_error = false, .root = NULL, .stack = &stack};
  uint64_t cnt = in_u64();
#if KIND == 1
  const size_t elem = sizeof(cbor_item_t*);
#else
  const size_t elem = sizeof(struct cbor_pair);
#endif
#if REGION == 1
  __CPROVER_assume(cnt > 8);
  a_inject = true; a_failstop = true; a_failk = 1;
#else
  __CPROVER_assume(cnt >= 1 && cnt <= 8);
#endif
#if KIND == 1
  cbor_builder_array_start_callback(&ctx, cnt);
#else
  cbor_builder_map_start_callback(&ctx, cnt);
#endif
#if REGION == 1
  VF_ASSERT(ctx.creation_failed, "refused backing store is reported as creation_failed");
  VF_ASSERT(stack.size == 0 && a_live == 0, "nothing pushed, nothing leaked");
  if (a_malloc_calls == 2) { VF_ASSERT(cnt <= SIZE_MAX / elem, "no wrapped request"); VF_ASSERT(a_last_size == cnt * elem, "backing store request is exactly count*elem"); }
  else { VF_ASSERT(a_malloc_calls == 1, "at most header + backing store requested"); VF_ASSERT(cnt > (SIZE_MAX / elem) / 2, "allocator skipped only when the product is near overflow"); }
#else
  VF_ASSERT(!ctx.creation_failed && stack.size == 1, "small container is opened");
  VF_ASSERT(a_malloc_calls == 3 && a_last_size == sizeof(struct _cbor_stack_record), "header, backing store, stack frame");
  VF_ASSERT(stack.top->subitems == (KIND == 1 ? cnt : 2 * cnt), "expected subitem count recorded");
  cbor_item_t* it = stack.top->item;
  VF_ASSERT((KIND == 1 ? cbor_array_allocated(it) : cbor_map_allocated(it)) == cnt, "capacity recorded");
  it->data[cnt * elem - 1] = 0; /* the whole backing store is addressable */
  a_free(it->data); a_free(it); _cbor_stack_pop(&stack);
  VF_ASSERT(a_live == 0, "released");
#endif
#elif MODE == M_NEW_DEFINITE
  a_install();
  size_t cnt = in_size();
#if KIND == 1
  const size_t elem = sizeof(cbor_item_t*);
#else
  const size_t elem = sizeof(struct cbor_pair);
#endif
#if REGION == 1
  __CPROVER_assume(cnt > 8);
  a_inject = true; a_failstop = true; a_failk = 1;
#else
  __CPROVER_assume(cnt <= 8);
#endif
#if KIND == 1
  cbor_item_t* it = cbor_new_definite_array(cnt);
#else
  cbor_item_t* it = cbor_new_definite_map(cnt);
#endif
#if REGION == 1
  VF_ASSERT(it == NULL && a_live == 0, "refused backing store: NULL, header released");
  if (a_malloc_calls == 2) { VF_ASSERT(cnt <= SIZE_MAX / elem, "no wrapped request"); VF_ASSERT(a_last_size == cnt * elem, "request is exactly count*elem"); }
  else VF_ASSERT(a_malloc_calls == 1 && cnt > (SIZE_MAX / elem) / 2, "allocator skipped only near overflow");
#else
  VF_ASSERT(it != NULL && a_malloc_calls == 2 && a_last_size == cnt * elem, "granted: exact backing store");
  VF_ASSERT((KIND == 1 ? cbor_array_allocated(it) : cbor_map_allocated(it)) == cnt, "capacity recorded");
  if (cnt) it->data[cnt * elem - 1] = 0;
  a_free(it->data); a_free(it);
  VF_ASSERT(a_live == 0, "released");
#endif
#endif
  VF_WITNESS();
}
