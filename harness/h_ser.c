/* Tree-side harness over generated trees (trees.h): decoder-obtained and construction-API trees.
 *   -DP_SER  : C03  cbor_serialize == reference encoding byte for byte; size; (with -DP_RT) reload consumes all bytes, equal tree, identical re-serialization
 *   -DP_SIZE : C07  buffer size n symbolic in 0..size+2: returns size iff n >= size else 0; bytes [size,n) untouched; serialize_alloc exact
 *   -DP_COPY : C11  cbor_copy equal / independent / refcount 1 / source intact
 */
#include "trees.h"

#define OUTCAP (MAX_OUT + 1)
static unsigned char EXP[OUTCAP];

static void run_tree(int id, const struct xcase* c, cbor_item_t* it, const unsigned char* D, int shared, int built) {
  vf_case = id;
  size_t ix = 0;
#ifdef P_RT
  ref_canon = 1; /* under assume_canonical the width-from-table rendering is the encoding; keeps positions concrete */
#endif
  size_t elen = ref_encode(c->xn, &ix, D, EXP, 0);
  ref_canon = 0;
  VF_ASSERT(ix == c->nn && elen <= OUTCAP, "reference encoder consumed the whole table");
  /* the tree is what its construction says (for decoder trees this repeats C02's walk) */
  ix = 0; tree_check(it, c->xn, &ix, D, shared ? 0 : 1);

#ifdef P_SER
  size_t sz = cbor_serialized_size(it);
  VF_ASSERT(sz == elen, "cbor_serialized_size equals the length of the RFC 8949 encoding");
  unsigned char* out = vf_block(elen);
  size_t w = cbor_serialize(it, out, elen);
  VF_ASSERT(w == elen, "cbor_serialize returns the encoding length");
  for (size_t i = 0; i < OUTCAP; i++) if (i < elen) VF_ASSERT(out[i] == EXP[i], "cbor_serialize emits exactly the RFC 8949 encoding of the tree");
#ifdef P_RT
  /* R: the same encoding written with argument widths taken from the table (no data-dependent branch), so that its head
     bytes are concrete for the decoder; under assume_canonical it must equal the real output byte for byte */
  static unsigned char RB[OUTCAP];
  ref_canon = 1; ix = 0; size_t rlen = ref_encode(c->xn, &ix, D, RB, 0); ref_canon = 0;
  VF_ASSERT(rlen == elen, "canonical-width encoding has the same length");
  unsigned char* rin = vf_block(rlen);
  for (size_t i = 0; i < OUTCAP; i++) if (i < rlen) { VF_ASSERT(out[i] == RB[i], "real output equals the concrete-head rendering of the encoding"); rin[i] = RB[i]; }
  struct cbor_load_result res;
  cbor_item_t* it2 = cbor_load(rin, rlen, &res);
  free(rin);
  VF_ASSERT(it2 != NULL && res.error.code == CBOR_ERR_NONE, "the emitted bytes load");
  __CPROVER_assume(it2 != NULL);
  VF_ASSERT(res.read == elen, "loading the emitted bytes consumes all of them");
  ix = 0; tree_check(it2, c->xn, &ix, D, 1);   /* equal to the original (NaN class-equal); shared children come back unshared */
  unsigned char* out2 = vf_block(elen);
  VF_ASSERT(cbor_serialize(it2, out2, elen) == elen, "re-serialization has the same length");
  for (size_t i = 0; i < OUTCAP; i++) if (i < elen) VF_ASSERT(out2[i] == out[i], "serializing the reloaded tree yields identical bytes");
  free(out2);
  cbor_decref(&it2);
#endif
  free(out);
#endif

#ifdef P_SIZE
  size_t sz = cbor_serialized_size(it);
  VF_ASSERT(sz == elen, "cbor_serialized_size equals the encoding length");
#ifdef P_SIZE_EXACT
  /* every buffer size 0..size+2, each in an exactly-sized heap block: any write at >= n is an object-bounds violation */
  for (size_t bn = 0; bn < OUTCAP + 2; bn++) if (bn <= elen + 2) {
    unsigned char* out = vf_block(bn);
    size_t w = cbor_serialize(it, out, bn);
    VF_ASSERT(w == (bn >= sz ? sz : 0), "cbor_serialize returns the size iff the buffer is large enough, else 0");
    if (w) for (size_t i = 0; i < OUTCAP; i++) if (i < sz) VF_ASSERT(out[i] == EXP[i], "bytes written are the encoding");
    free(out);
  }
#else
  /* n symbolic in 0..size+2; the block is larger (fixed capacity) and pre-filled with arbitrary bytes that are snapshotted:
     a write outside the first n bytes, or past the encoding on success, changes a byte that must be unchanged */
  size_t bn = in_size();
  __CPROVER_assume(bn <= elen + 2);
  unsigned char* out = vf_sym_block(OUTCAP + 2);
  unsigned char snap[OUTCAP + 2];
  for (size_t i = 0; i < OUTCAP + 2; i++) snap[i] = out[i];
  size_t w = cbor_serialize(it, out, bn);
  VF_ASSERT(w == (bn >= sz ? sz : 0), "cbor_serialize returns the size iff the buffer is large enough, else 0");
  for (size_t i = 0; i < OUTCAP + 2; i++) {
    if (w && i < sz) VF_ASSERT(out[i] == EXP[i], "bytes written are the encoding");
    if (i >= (w ? sz : bn)) VF_ASSERT(out[i] == snap[i], "nothing written outside the first n bytes (nor past the encoding on success)");
  }
  free(out);
#endif
  /* serialize_alloc: exactly size bytes requested, same bytes, size reported */
  unsigned char* ab = NULL; size_t absz = 12345;
  size_t mc0 = a_malloc_calls;
  size_t aw = cbor_serialize_alloc(it, &ab, &absz);
  VF_ASSERT(aw == sz && absz == sz && ab != NULL, "cbor_serialize_alloc returns a buffer of exactly the serialized size");
  VF_ASSERT(a_malloc_calls == mc0 + 1 && a_last_size == sz, "cbor_serialize_alloc requests exactly that many bytes, once");
  if (ab) { for (size_t i = 0; i < OUTCAP; i++) if (i < sz) VF_ASSERT(ab[i] == EXP[i], "cbor_serialize_alloc holds exactly the encoding"); a_free(ab); }
#endif

#ifdef P_GLOBALS
  /* C17: the whole client pipeline on thread-private data; the library's static-lifetime mutable objects are compared afterwards */
  {
    cbor_describe(it, stdout);
    size_t sz = cbor_serialized_size(it);
    unsigned char* out = vf_block(elen);
    VF_ASSERT(cbor_serialize(it, out, elen) == elen && sz == elen, "serialize");
    free(out);
    cbor_item_t* cp = cbor_copy(it);
    if (cp) { cbor_describe(cp, stdout); cbor_decref(&cp); }
  }
#endif

#ifdef P_ROUTE
  /* C13: fixed-buffer serialization and size computation request no memory; copy / release route every block through the installed triple */
  {
    size_t r0 = a_malloc_calls + a_realloc_calls, f0 = a_frees;
    size_t sz = cbor_serialized_size(it);
    unsigned char* out = (unsigned char*)malloc(elen + 1); __CPROVER_assume(out != NULL);   /* the harness's own block: plain libc, not routed */
    size_t w = cbor_serialize(it, out, elen + 1);
    VF_ASSERT(sz == elen && w == elen, "size and serialization agree");
    VF_ASSERT(a_malloc_calls + a_realloc_calls == r0 && a_frees == f0, "cbor_serialized_size and cbor_serialize request and release no memory");
    free(out);
    cbor_item_t* cp = cbor_copy(it);
    VF_ASSERT(cp != NULL, "copy succeeds");
    if (cp) cbor_decref(&cp);
    unsigned char* ab = NULL; size_t absz = 0;
    if (cbor_serialize_alloc(it, &ab, &absz)) a_free(ab); /* the returned buffer belongs to the installed allocator: its free must accept it */
  }
#endif

#ifdef P_COPY
  static struct addrset A, B;
  size_t live0 = a_live;
  cbor_item_t* cp = cbor_copy(it);
  VF_ASSERT(cp != NULL, "copy succeeds when memory is available");
  __CPROVER_assume(cp != NULL);
  ix = 0; tree_check(cp, c->xn, &ix, D, 1);  /* same shape and values; reference count one on every node; shared nodes unshared */
  ix = 0; tree_check(it, c->xn, &ix, D, shared ? 0 : 1); /* source contents and reference counts unchanged */
  A.n = 0; B.n = 0; addr_collect(it, &A); addr_collect(cp, &B);
  VF_ASSERT(A.n < MAXADDR && B.n < MAXADDR, "address census capacity");
  for (size_t i = 0; i < MAXADDR; i++) for (size_t j = 0; j < MAXADDR; j++) if (i < A.n && j < B.n) VF_ASSERT(A.a[i] != B.a[j], "copy shares no node and no buffer with the source");
  if (!shared) VF_ASSERT(B.n == A.n, "same number of nodes and buffers");
  { /* serializes to the same bytes */
    unsigned char* o1 = vf_block(elen);
    VF_ASSERT(cbor_serialize(cp, o1, elen) == elen, "copy serializes to the same length");
    for (size_t i = 0; i < OUTCAP; i++) if (i < elen) VF_ASSERT(o1[i] == EXP[i], "copy serializes to the same bytes");
    free(o1);
  }
#ifdef P_COPY_RELEASE_SRC
  cbor_decref(&it);
  ix = 0; tree_check(cp, c->xn, &ix, D, 1);  /* releasing the source has no effect on the copy */
  cbor_decref(&cp);
  VF_ASSERT(a_live == 0, "both trees released completely");
  return;
#else
  cbor_decref(&cp);
  VF_ASSERT(a_live == live0, "releasing the copy frees exactly what the copy allocated");
  ix = 0; tree_check(it, c->xn, &ix, D, shared ? 0 : 1);  /* releasing the copy has no effect on the source */
#endif
#endif

  cbor_decref(&it);
  VF_ASSERT(it == NULL && a_live == 0, "tree released completely by the last reference");
}

#define RUN(id, xc, mk, shared, built)                                                          \
  {                                                                                             \
    static unsigned char D[MAX_SK + 1];                                                         \
    for (size_t i = 0; i < MAX_SK; i++) if (i < (xc)->n) D[i] = (xc)->sk[i] < 0 ? in_u8() : (unsigned char)(xc)->sk[i]; \
    RT_ASSUME(xc, D, id)                                                                            \
    cbor_item_t* it = mk(D);                                                                    \
    run_tree(id, xc, it, D, shared, built);                                                     \
  }
#ifdef P_RT
#define RT_ASSUME(xc, D, id) assume_canonical((xc)->xn, (xc)->nn, D);
#elif defined(P_SIZE)
#define RT_ASSUME(xc, D, id) concretize_widths((xc)->xn, (xc)->nn, D, id);
#else
#define RT_ASSUME(xc, D, id)
#endif

void harness(void) {
  a_install();
#ifdef P_GLOBALS
  _cbor_malloc_t g_m = _cbor_malloc; _cbor_realloc_t g_r = _cbor_realloc; _cbor_free_t g_f = _cbor_free;
#ifdef DEBUG
  bool g_a = _cbor_enable_assert;
#endif
#endif
  FOR_EACH_TREE(RUN)
#ifdef P_GLOBALS
  VF_ASSERT(_cbor_malloc == g_m && _cbor_realloc == g_r && _cbor_free == g_f, "allocator configuration is not modified by decode/build/copy/serialize/describe/release");
#ifdef DEBUG
  VF_ASSERT(_cbor_enable_assert == g_a, "assertion switch is not modified by the API");
#endif
#endif
  VF_WITNESS();
}
