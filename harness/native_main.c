/* Native replay driver: feeds the recorded counterexample inputs to the same harness. */
#include <stdint.h>
#include <stdio.h>
#include <stdlib.h>
void harness(void);
static FILE* vf_f;
uint64_t vf_next(void) {
  unsigned long long v = 0;
  if (!vf_f) { const char* p = getenv("VF_INPUTS"); vf_f = p ? fopen(p, "r") : NULL; }
  if (!vf_f || fscanf(vf_f, "%llu", &v) != 1) return 0;
  return (uint64_t)v;
}
int main(void) { harness(); return 0; }
