/* Recording callback table for cbor_stream_decode: every one of the 24 slots records (slot, call count, args). */
#ifndef REC_H
#define REC_H
#include "cbor.h"
#include "vf.h"
#define S_NONE 0
#define S_UINT8 1
#define S_UINT16 2
#define S_UINT32 3
#define S_UINT64 4
#define S_NEGINT8 5
#define S_NEGINT16 6
#define S_NEGINT32 7
#define S_NEGINT64 8
#define S_BS 9
#define S_BS_START 10
#define S_STR 11
#define S_STR_START 12
#define S_ARR 13
#define S_IARR 14
#define S_MAP 15
#define S_IMAP 16
#define S_TAG 17
#define S_F2 18
#define S_F4 19
#define S_F8 20
#define S_UNDEF 21
#define S_NULL 22
#define S_BOOL 23
#define S_BREAK 24
struct rec { int slot; int calls; uint64_t a; const unsigned char* p; uint64_t len; void* ctx; };
#ifndef NREC
#define NREC 2
#endif
static struct rec R[NREC];
static int cur;
#define CB0(name, id) static void r_##name(void* c) { R[cur].slot = id; R[cur].calls++; R[cur].ctx = c; }
#define CBV(name, id, T) static void r_##name(void* c, T v) { R[cur].slot = id; R[cur].calls++; R[cur].a = (uint64_t)v; R[cur].ctx = c; }
#define CBS(name, id) static void r_##name(void* c, cbor_data d, uint64_t l) { R[cur].slot = id; R[cur].calls++; R[cur].p = d; R[cur].len = l; R[cur].ctx = c; }
CBV(uint8, S_UINT8, uint8_t) CBV(uint16, S_UINT16, uint16_t) CBV(uint32, S_UINT32, uint32_t) CBV(uint64, S_UINT64, uint64_t)
CBV(negint8, S_NEGINT8, uint8_t) CBV(negint16, S_NEGINT16, uint16_t) CBV(negint32, S_NEGINT32, uint32_t) CBV(negint64, S_NEGINT64, uint64_t)
CBS(bs, S_BS) CB0(bs_start, S_BS_START) CBS(str, S_STR) CB0(str_start, S_STR_START)
CBV(arr, S_ARR, uint64_t) CB0(iarr, S_IARR) CBV(map, S_MAP, uint64_t) CB0(imap, S_IMAP) CBV(tag, S_TAG, uint64_t)
static void r_f2(void* c, float v) { R[cur].slot = S_F2; R[cur].calls++; R[cur].a = f32_bits(v); R[cur].ctx = c; }
static void r_f4(void* c, float v) { R[cur].slot = S_F4; R[cur].calls++; R[cur].a = f32_bits(v); R[cur].ctx = c; }
static void r_f8(void* c, double v) { R[cur].slot = S_F8; R[cur].calls++; R[cur].a = f64_bits(v); R[cur].ctx = c; }
CB0(undef, S_UNDEF) CB0(null, S_NULL) CBV(boolean, S_BOOL, bool) CB0(brk, S_BREAK)
static const struct cbor_callbacks REC_CBS = {
    .uint8 = r_uint8, .uint16 = r_uint16, .uint32 = r_uint32, .uint64 = r_uint64,
    .negint8 = r_negint8, .negint16 = r_negint16, .negint32 = r_negint32, .negint64 = r_negint64,
    .byte_string_start = r_bs_start, .byte_string = r_bs, .string = r_str, .string_start = r_str_start,
    .indef_array_start = r_iarr, .array_start = r_arr, .indef_map_start = r_imap, .map_start = r_map,
    .tag = r_tag, .float2 = r_f2, .float4 = r_f4, .float8 = r_f8, .undefined = r_undef, .null = r_null,
    .boolean = r_boolean, .indef_break = r_brk};
#endif
