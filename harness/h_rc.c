/* C04 (a): one API step from ARBITRARY reference counts.
 * Every operand starts with count = (references the ownership rules say exist) + a symbolic surplus held by "other owners";
 * after the call each count must equal the documented delta, an item is released iff its count reached zero, exactly once
 * (counting allocator + CBMC double-free / use-after-free checks). One step from an arbitrary state of the invariant
 * "count = number of owners" extends to histories of any length by induction. */
#include "alloc.h"

static size_t surplus(void) { size_t s = in_size(); __CPROVER_assume(s < SIZE_MAX - 16); return s; }
/* block accounting is measured, not assumed: how many allocator blocks an item takes is a layout decision of the library */
static size_t last_blocks;
static cbor_item_t* leaf(void) { size_t l0 = a_live; cbor_item_t* x = cbor_build_uint8(in_u8()); __CPROVER_assume(x != NULL); last_blocks = a_live - l0; return x; }
static cbor_item_t* chunk(int text) { size_t l0 = a_live; unsigned char b = in_u8(); cbor_item_t* x = text ? cbor_build_stringn((const char*)&b, 1) : cbor_build_bytestring(&b, 1); __CPROVER_assume(x != NULL); last_blocks = a_live - l0; return x; }
#define OK(e) { bool ok_ = (e); __CPROVER_assume(ok_); }

#define OP_INCREF 1
#define OP_DECREF_LEAF 2
#define OP_INTERMEDIATE_DECREF 3
#define OP_MOVE 4
#define OP_DECREF_ARRAY_SHARED 5   /* array [c1, c2, c1], all three counts symbolic */
#define OP_DECREF_MAP 6
#define OP_DECREF_TAG 7
#define OP_DECREF_CHUNKED 8
#define OP_PUSH 9
#define OP_PUSH_FULL 10
#define OP_REPLACE 11
#define OP_SET_APPEND 12
#define OP_GET 13
#define OP_MAP_ADD 14
#define OP_ADD_CHUNK 15
#define OP_TAG_SET_ITEM 16
#define OP_TAG_ITEM 17
#define OP_BUILD_TAG 18
#define OP_COPY 19
#define OP_DECREF_NESTED 20
#define OP_REPLACE_SAME 21          /* the slot is overwritten with the very item it already holds (aliasing) */
#define OP_PUSH_AGAIN 22            /* an item already held by the array is pushed a second time */
#define OP_MAP_ADD_SAME 23          /* the same item as key and as value */
#define OP_APPEND_NTH 24            /* append to a container that already holds PRE entries: exercises both the growth step and the free-slot path */        /* array [ tag(c1), c1 ]: releasing the array releases the tag, which drops its reference to c1 */

void harness(void) {
  a_install();
#if OP == OP_INCREF
  cbor_item_t* x = leaf(); size_t s = surplus(); x->refcount = 1 + s;
  VF_ASSERT(cbor_incref(x) == x && cbor_refcount(x) == 2 + s, "incref adds exactly one reference and returns the item");
#elif OP == OP_DECREF_LEAF || OP == OP_INTERMEDIATE_DECREF
  cbor_item_t* x = leaf(); size_t xb = last_blocks; size_t s = surplus(); x->refcount = 1 + s;
  cbor_item_t* h = x; size_t live0 = a_live;
#if OP == OP_DECREF_LEAF
  cbor_decref(&h);
  if (s > 0) VF_ASSERT(h == x, "handle kept while other references exist"); else VF_ASSERT(h == NULL, "handle nulled when the item is released");
#else
  cbor_intermediate_decref(h);
#endif
  if (s > 0) { VF_ASSERT(x->refcount == s && a_live == live0, "decref removes exactly one reference; nothing released while references remain"); }
  else VF_ASSERT(a_live == live0 - xb, "last reference: the item (all its blocks) is released, exactly once");
#elif OP == OP_MOVE
  cbor_item_t* x = leaf(); size_t s = surplus(); x->refcount = 1 + s; size_t live0 = a_live;
  VF_ASSERT(cbor_move(x) == x && x->refcount == s && a_live == live0, "move drops one reference without ever releasing");
#elif OP == OP_DECREF_ARRAY_SHARED
  cbor_item_t* c1 = leaf(); size_t b1 = last_blocks; cbor_item_t* c2 = chunk(1); size_t b2 = last_blocks; size_t la = a_live; cbor_item_t* a = cbor_new_indefinite_array(); __CPROVER_assume(a);
  OK(cbor_array_push(a, c1)); OK(cbor_array_push(a, c2)); OK(cbor_array_push(a, c1));
  size_t ba = a_live - la;   /* header + slot table, however the library lays them out */
  size_t s1 = surplus(), s2 = surplus(), sa = surplus();
  c1->refcount = 2 + s1; c2->refcount = 1 + s2; a->refcount = 1 + sa;   /* the client has already dropped its own references to the children */
  size_t live0 = a_live; cbor_item_t* h = a;
  cbor_decref(&h);
  if (sa > 0) VF_ASSERT(h == a && a->refcount == sa && c1->refcount == 2 + s1 && c2->refcount == 1 + s2 && a_live == live0, "container with remaining references: nothing below it is touched");
  else {
    VF_ASSERT(h == NULL, "container released");
    size_t freed = ba;
    if (s1 == 0) freed += b1; else VF_ASSERT(c1->refcount == s1, "child held twice loses exactly two references");
    if (s2 == 0) freed += b2; else VF_ASSERT(c2->refcount == s2, "child held once loses exactly one reference");
    VF_ASSERT(a_live == live0 - freed, "exactly the items whose last reference went away are released, each once");
  }
#elif OP == OP_DECREF_MAP
  cbor_item_t* k = leaf(); size_t bk = last_blocks; cbor_item_t* v = leaf(); size_t bv = last_blocks; size_t lm = a_live; cbor_item_t* m = cbor_new_definite_map(2); __CPROVER_assume(m);
  OK(cbor_map_add(m, (struct cbor_pair){.key = k, .value = v}));
  size_t bm = a_live - lm;
  size_t sk = surplus(), sv = surplus(); k->refcount = 1 + sk; v->refcount = 1 + sv;
  size_t live0 = a_live;
  cbor_decref(&m);
  VF_ASSERT(m == NULL, "map released");
  size_t freed = bm; if (sk == 0) freed += bk; else VF_ASSERT(k->refcount == sk, "key loses one reference"); if (sv == 0) freed += bv; else VF_ASSERT(v->refcount == sv, "value loses one reference");
  VF_ASSERT(a_live == live0 - freed, "map release frees exactly what only it kept alive");
#elif OP == OP_DECREF_TAG
  cbor_item_t* c = leaf(); size_t bc = last_blocks; size_t lt = a_live; cbor_item_t* t = cbor_build_tag(in_u64(), c); __CPROVER_assume(t); size_t bt = a_live - lt;
  size_t sc = surplus(); c->refcount = 1 + sc; size_t live0 = a_live;
  cbor_decref(&t);
  if (sc == 0) VF_ASSERT(a_live == live0 - bt - bc, "tag and its only-owned child released"); else VF_ASSERT(c->refcount == sc && a_live == live0 - bt, "tagged child loses one reference");
#elif OP == OP_DECREF_CHUNKED
  cbor_item_t* c = chunk(KIND); size_t bc = last_blocks; size_t ls = a_live; cbor_item_t* s = KIND ? cbor_new_indefinite_string() : cbor_new_indefinite_bytestring(); __CPROVER_assume(s);
  OK(KIND ? cbor_string_add_chunk(s, c) : cbor_bytestring_add_chunk(s, c));
  size_t bs = a_live - ls;
  size_t sc = surplus(); c->refcount = 1 + sc; size_t live0 = a_live;
  cbor_decref(&s);
  if (sc == 0) VF_ASSERT(a_live == live0 - bs - bc, "string, its tables and its only-owned chunk released"); else VF_ASSERT(c->refcount == sc && a_live == live0 - bs, "chunk loses one reference");
#elif OP == OP_PUSH || OP == OP_PUSH_FULL || OP == OP_SET_APPEND
  cbor_item_t* x = leaf(); cbor_item_t* y = leaf();
#if OP == OP_PUSH_FULL
  cbor_item_t* a = cbor_new_definite_array(1);
#else
  cbor_item_t* a = KIND ? cbor_new_definite_array(2) : cbor_new_indefinite_array();
#endif
  __CPROVER_assume(a); OK(cbor_array_push(a, y));
  size_t sx = surplus(), sa = surplus(), sy = surplus(); x->refcount = 1 + sx; a->refcount = 1 + sa; y->refcount = 2 + sy;
#if OP == OP_SET_APPEND
  bool ok = cbor_array_set(a, 1, x);
#else
  bool ok = cbor_array_push(a, x);
#endif
#if OP == OP_PUSH_FULL
  VF_ASSERT(!ok && x->refcount == 1 + sx, "refused push takes no reference");
#else
  VF_ASSERT(ok && x->refcount == 2 + sx, "successful push takes exactly one reference to the pushed item");
#endif
  VF_ASSERT(a->refcount == 1 + sa && y->refcount == 2 + sy, "container and existing elements keep their counts");
#elif OP == OP_REPLACE
  cbor_item_t* x = leaf(); cbor_item_t* y = leaf(); size_t by = last_blocks; cbor_item_t* a = cbor_new_indefinite_array(); __CPROVER_assume(a); OK(cbor_array_push(a, y));
  size_t sx = surplus(), sy = surplus(); x->refcount = 1 + sx; y->refcount = 1 + sy;   /* client already dropped y */
  size_t live0 = a_live;
  bool ok = KIND ? cbor_array_set(a, 0, x) : cbor_array_replace(a, 0, x);
  VF_ASSERT(ok && x->refcount == 2 + sx, "replace takes one reference to the new element");
  if (sy == 0) VF_ASSERT(a_live == live0 - by, "replaced element released when the array held its last reference"); else VF_ASSERT(y->refcount == sy && a_live == live0, "replaced element loses exactly one reference");
  VF_ASSERT(cbor_array_handle(a)[0] == x, "slot holds the new element");
#elif OP == OP_REPLACE_SAME
  cbor_item_t* y = leaf(); cbor_item_t* a = KIND ? cbor_new_definite_array(1) : cbor_new_indefinite_array(); __CPROVER_assume(a); OK(cbor_array_push(a, y));
  size_t sy = surplus(); y->refcount = 2 + sy;   /* client + slot + others */
  size_t live0 = a_live;
  bool ok = (KIND & 1) ? cbor_array_set(a, 0, y) : cbor_array_replace(a, 0, y);
  VF_ASSERT(ok && cbor_array_handle(a)[0] == y, "slot still holds the item");
  VF_ASSERT(y->refcount == 2 + sy && a_live == live0, "putting an item back into the slot that holds it leaves its count unchanged (one reference dropped, one taken)");
#elif OP == OP_PUSH_AGAIN
  cbor_item_t* y = leaf(); cbor_item_t* a = cbor_new_indefinite_array(); __CPROVER_assume(a); OK(cbor_array_push(a, y));
  size_t sy = surplus(); y->refcount = 2 + sy;
  bool ok = cbor_array_push(a, y);
  VF_ASSERT(ok && y->refcount == 3 + sy && cbor_array_size(a) == 2 && cbor_array_handle(a)[0] == y && cbor_array_handle(a)[1] == y, "an item may be held by several slots: one reference per slot");
#elif OP == OP_MAP_ADD_SAME
  cbor_item_t* k = leaf(); size_t live0 = a_live; cbor_item_t* m = cbor_new_indefinite_map(); __CPROVER_assume(m);
  size_t sk = surplus(); k->refcount = 1 + sk;
  bool ok = cbor_map_add(m, (struct cbor_pair){.key = k, .value = k});
  VF_ASSERT(ok && k->refcount == 3 + sk, "the same item as key and value: two references");
  cbor_decref(&m);
  VF_ASSERT(k->refcount == 1 + sk && a_live == live0, "releasing the map drops both references and every block the map took");
#elif OP == OP_APPEND_NTH
  /* KIND: 1 indefinite array, 2 indefinite map, 3 chunked byte string, 4 chunked text string, 5 definite array (capacity PRE+1), 6 definite map (capacity PRE+1) */
  cbor_item_t* old[6];
#if KIND == 1
  cbor_item_t* c = cbor_new_indefinite_array();
#elif KIND == 2
  cbor_item_t* c = cbor_new_indefinite_map();
#elif KIND == 3
  cbor_item_t* c = cbor_new_indefinite_bytestring();
#elif KIND == 4
  cbor_item_t* c = cbor_new_indefinite_string();
#elif KIND == 5
  cbor_item_t* c = cbor_new_definite_array(PRE + 1);
#else
  cbor_item_t* c = cbor_new_definite_map(PRE + 1);
#endif
  __CPROVER_assume(c);
#if KIND == 3 || KIND == 4
#define NEWITEM() chunk(KIND == 4)
#else
#define NEWITEM() leaf()
#endif
#if KIND == 1 || KIND == 5
#define APPEND(x) cbor_array_push(c, x)
#elif KIND == 2 || KIND == 6
#define APPEND(x) cbor_map_add(c, (struct cbor_pair){.key = x, .value = x})
#elif KIND == 3
#define APPEND(x) cbor_bytestring_add_chunk(c, x)
#else
#define APPEND(x) cbor_string_add_chunk(c, x)
#endif
#define PER ((KIND == 2 || KIND == 6) ? 2 : 1)   /* references a container takes per appended entry (a map holds key and value) */
  for (int i = 0; i < 6; i++) if (i < PRE) { old[i] = NEWITEM(); OK(APPEND(old[i])); }
  cbor_item_t* x = NEWITEM();
  size_t sx = surplus(); x->refcount = 1 + sx;
  bool ok = APPEND(x);
  VF_ASSERT(ok, "append succeeds while there is room / the container can grow");
  VF_ASSERT(x->refcount == 1 + PER + sx, "the container takes exactly one reference per stored position, whichever internal path stores it");
  for (int i = 0; i < 6; i++) if (i < PRE) VF_ASSERT(cbor_refcount(old[i]) == 1 + PER, "earlier entries keep their counts");
  cbor_decref(&c);
  VF_ASSERT(x->refcount == 1 + sx, "releasing the container gives every reference back");
  for (int i = 0; i < 6; i++) if (i < PRE) VF_ASSERT(cbor_refcount(old[i]) == 1, "earlier entries are back to the client's reference");
#elif OP == OP_GET
  cbor_item_t* y = leaf(); cbor_item_t* a = cbor_new_indefinite_array(); __CPROVER_assume(a); OK(cbor_array_push(a, y));
  size_t sy = surplus(); y->refcount = 2 + sy;
  cbor_item_t* r = cbor_array_get(a, 0);
  VF_ASSERT(r == y && y->refcount == 3 + sy, "get hands out one new reference");
  VF_ASSERT(cbor_array_get(a, 1) == NULL && y->refcount == 3 + sy, "out-of-range get hands out nothing");
#elif OP == OP_MAP_ADD
  cbor_item_t* k = leaf(); cbor_item_t* v = leaf(); cbor_item_t* m = KIND ? cbor_new_definite_map(1) : cbor_new_indefinite_map(); __CPROVER_assume(m);
  size_t sk = surplus(), sv = surplus(); k->refcount = 1 + sk; v->refcount = 1 + sv;
  bool ok = cbor_map_add(m, (struct cbor_pair){.key = k, .value = v});
  VF_ASSERT(ok && k->refcount == 2 + sk && v->refcount == 2 + sv, "add-pair takes one reference to key and value each");
  if (KIND) { bool ok2 = cbor_map_add(m, (struct cbor_pair){.key = k, .value = v}); VF_ASSERT(!ok2 && k->refcount == 2 + sk && v->refcount == 2 + sv, "refused add-pair takes no reference"); }
#elif OP == OP_ADD_CHUNK
  cbor_item_t* c = chunk(KIND); cbor_item_t* s = KIND ? cbor_new_indefinite_string() : cbor_new_indefinite_bytestring(); __CPROVER_assume(s);
  size_t sc = surplus(); c->refcount = 1 + sc;
  bool ok = KIND ? cbor_string_add_chunk(s, c) : cbor_bytestring_add_chunk(s, c);
  VF_ASSERT(ok && c->refcount == 2 + sc, "add-chunk takes one reference");
#elif OP == OP_TAG_SET_ITEM || OP == OP_TAG_ITEM || OP == OP_BUILD_TAG
  cbor_item_t* c = leaf(); size_t sc = surplus(); c->refcount = 1 + sc;
#if OP == OP_BUILD_TAG
  cbor_item_t* t = cbor_build_tag(in_u64(), c); __CPROVER_assume(t);
  VF_ASSERT(c->refcount == 2 + sc && cbor_refcount(t) == 1, "build_tag takes one reference to the item; the new tag has one owner");
#else
  cbor_item_t* t = cbor_new_tag(in_u64()); __CPROVER_assume(t);
  cbor_tag_set_item(t, c);
  VF_ASSERT(c->refcount == 2 + sc, "tag_set_item takes one reference");
#if OP == OP_TAG_ITEM
  VF_ASSERT(cbor_tag_item(t) == c && c->refcount == 3 + sc, "tag_item hands out one new reference");
#endif
#endif
#elif OP == OP_COPY
  cbor_item_t* c1 = leaf(); cbor_item_t* a = cbor_new_indefinite_array(); __CPROVER_assume(a); OK(cbor_array_push(a, c1)); OK(cbor_array_push(a, c1));
  size_t s1 = surplus(), sa = surplus(); c1->refcount = 2 + s1; a->refcount = 1 + sa;
  cbor_item_t* cp = cbor_copy(a); __CPROVER_assume(cp);
  VF_ASSERT(a->refcount == 1 + sa && c1->refcount == 2 + s1, "copy leaves every source reference count unchanged");
  VF_ASSERT(cbor_refcount(cp) == 1 && cbor_refcount(cbor_array_handle(cp)[0]) == 1 && cbor_refcount(cbor_array_handle(cp)[1]) == 1, "copy nodes have one owner each");
#elif OP == OP_DECREF_NESTED
  cbor_item_t* c1 = leaf(); size_t b1 = last_blocks; size_t lt = a_live; cbor_item_t* t = cbor_build_tag(7, c1); size_t bt = a_live - lt; size_t la = a_live; cbor_item_t* a = cbor_new_definite_array(2); __CPROVER_assume(t && a);
  OK(cbor_array_push(a, t)); OK(cbor_array_push(a, c1));
  size_t ba = a_live - la;
  size_t s1 = surplus(), st = surplus(); c1->refcount = 2 + s1; t->refcount = 1 + st;
  size_t live0 = a_live;
  cbor_decref(&a);
  size_t freed = ba;
  if (st == 0) { freed += bt; if (s1 == 0) freed += b1; else VF_ASSERT(c1->refcount == s1, "child loses the array's and the released tag's references"); }
  else { VF_ASSERT(t->refcount == st, "tag loses one reference"); VF_ASSERT(c1->refcount == 1 + s1, "child loses only the array's reference while the tag lives on"); }
  VF_ASSERT(a_live == live0 - freed, "exactly the unreferenced items are released, each once");
#endif
  VF_WITNESS();
}
