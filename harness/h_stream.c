/* C08: one call of cbor_stream_decode on EVERY buffer of 0..MAXN bytes against the reference head decoder. */
#include "ref.h"
#ifndef MAXN
#define MAXN 12
#endif

static void* no_malloc(size_t n) { VF_ASSERT(0, "streaming decoder requested memory (malloc)"); return 0; }
static void* no_realloc(void* p, size_t n) { VF_ASSERT(0, "streaming decoder requested memory (realloc)"); return 0; }
static void no_free(void* p) { VF_ASSERT(0, "streaming decoder released memory (free)"); }

void harness(void) {
  size_t n = in_size();
  __CPROVER_assume(n <= MAXN);
  unsigned char* buf = vf_sym_block(n);
  int ctxobj;
  cbor_set_allocs(no_malloc, no_realloc, no_free);
  cur = 0;
  struct cbor_decoder_result r = cbor_stream_decode(buf, n, &REC_CBS, &ctxobj);

  VF_ASSERT(r.status == CBOR_DECODER_FINISHED || r.status == CBOR_DECODER_NEDATA || r.status == CBOR_DECODER_ERROR, "status is one of three");
  if (n == 0) {
    VF_ASSERT(r.status == CBOR_DECODER_NEDATA && r.read == 0 && r.required == 1 && R[0].calls == 0, "empty buffer: NEDATA, required 1");
  } else {
    struct ref_head h = ref_decode_head(buf, n);
    if (h.reserved) {
      VF_ASSERT(r.status == CBOR_DECODER_ERROR, "reserved/unsupported initial byte gives ERROR");
      VF_ASSERT(r.read == 0 && R[0].calls == 0, "ERROR: read 0, no callback");
    } else if (!h.complete) {
      VF_ASSERT(r.status == CBOR_DECODER_NEDATA, "incomplete head gives NEDATA");
      VF_ASSERT(r.read == 0 && R[0].calls == 0, "NEDATA: read 0, no callback");
      VF_ASSERT(r.required > n && r.required <= 1 + h.argn, "NEDATA(head): n < required <= head length");
    } else if (h.has_payload && h.arg > n - 1 - h.argn) {
      VF_ASSERT(r.status == CBOR_DECODER_NEDATA, "incomplete string payload gives NEDATA");
      VF_ASSERT(r.read == 0 && R[0].calls == 0, "NEDATA: read 0, no callback");
      VF_ASSERT(r.required > n, "NEDATA(payload): required strictly greater than buffer length");
      /* required <= 1 + argn + arg in unbounded arithmetic */
      if (h.arg <= SIZE_MAX - 1 - h.argn) VF_ASSERT(r.required <= 1 + h.argn + h.arg, "NEDATA(payload): required no greater than the item");
    } else {
      VF_ASSERT(r.status == CBOR_DECODER_FINISHED, "complete head (and payload) gives FINISHED");
      VF_ASSERT(R[0].calls == 1, "FINISHED: exactly one callback");
      VF_ASSERT(R[0].slot == h.slot, "FINISHED: the callback of the head's kind");
      VF_ASSERT(R[0].ctx == (void*)&ctxobj, "context pointer passed through");
      VF_ASSERT(r.required == 0, "FINISHED: required is 0");
      if (h.has_payload) {
        VF_ASSERT(r.read == 1 + h.argn + h.arg, "FINISHED(string): read = head + payload");
        VF_ASSERT(R[0].len == h.arg && R[0].p == buf + 1 + h.argn, "string payload pointer/length inside the buffer");
      } else {
        VF_ASSERT(r.read == 1 + h.argn, "FINISHED: read = head length");
        if (slot_has_scalar(h.slot)) {
          if (h.is_nan) {
            if (h.slot == S_F8) VF_ASSERT(ref_is_nan64(R[0].a), "NaN double decodes to a NaN");
            else VF_ASSERT(ref_is_nan32((uint32_t)R[0].a), "NaN half/single decodes to a NaN");
          } else {
            VF_ASSERT(R[0].a == h.val, "callback argument equals the decoded argument");
          }
        }
      }
      /* keeps no state / independent of bytes beyond read: same call on a copy truncated to exactly `read` bytes */
      size_t m = r.read;
      unsigned char* b2 = vf_block(m);
      for (size_t i = 0; i < MAXN + 0 && i < m; i++) b2[i] = buf[i];
      cur = 1;
      struct cbor_decoder_result r2 = cbor_stream_decode(b2, m, &REC_CBS, &ctxobj);
      VF_ASSERT(r2.status == CBOR_DECODER_FINISHED && r2.read == r.read && r2.required == 0, "FINISHED does not depend on bytes beyond read");
      VF_ASSERT(R[1].calls == 1 && R[1].slot == R[0].slot, "truncated copy: same callback");
      if (h.has_payload) VF_ASSERT(R[1].len == R[0].len && R[1].p == b2 + 1 + h.argn, "truncated copy: same payload");
      else if (slot_has_scalar(h.slot) && !h.is_nan) VF_ASSERT(R[1].a == R[0].a, "truncated copy: same argument");
      free(b2);
    }
  }
  free(buf);
  VF_WITNESS();
}
