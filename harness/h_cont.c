/* C12: containers as bounded / unbounded sequences.
 *  M_SEQ       : table of operation sequences on an array (definite capacity CAP, or indefinite when CAP < 0) replayed against
 *                an abstract list kept by the harness; element payloads symbolic; ops and indices concrete per sequence
 *  M_MAPSEQ    : NADD add-pair calls on a map (definite capacity CAP or indefinite)
 *  M_CHUNKSEQ  : NADD add-chunk calls on a chunked byte/text string
 *  M_GROWLEMMA : one insertion into an indefinite container whose capacity/size are ANY size_t (full), recording+refusing allocator
 *  M_GROWCOUNT : 16 insertions cost at most 5 reallocations (geometric growth), capacities 1,2,4,8,16
 */
#include "alloc.h"
#include "cbor/internal/memory_utils.h"
#define OP_PUSH 1
#define OP_SET 2
#define OP_REPLACE 3
#define OP_GET 4
typedef unsigned __int128 u128;

#if defined(M_SEQ)
struct op { unsigned char kind, idx, item; };
#include "seqs.h" /* generated: static const struct op SEQS[NSEQ][SEQLEN]; */
#define POOL 3
static cbor_item_t* pool[POOL];
static cbor_item_t* model[8];
static size_t msize;

static size_t occurrences(cbor_item_t* p) { size_t c = 0; for (size_t i = 0; i < 8; i++) if (i < msize && model[i] == p) c++; return c; }

static void check_state(cbor_item_t* a, size_t extra_get_refs[POOL]) {
  VF_ASSERT(cbor_array_size(a) == msize, "size equals the abstract list's length");
  VF_ASSERT(cbor_array_size(a) <= cbor_array_allocated(a), "size never exceeds allocated capacity");
#if CAP >= 0
  VF_ASSERT(cbor_array_allocated(a) == CAP, "definite capacity is fixed");
#endif
  for (size_t i = 0; i < 8; i++) if (i < msize) VF_ASSERT(cbor_array_handle(a)[i] == model[i], "contents equal the abstract list");
  for (int p = 0; p < POOL; p++) VF_ASSERT(cbor_refcount(pool[p]) == 1 + occurrences(pool[p]) + extra_get_refs[p], "reference count = client + slots holding the item + references handed out by get");
}

static void run_seq(const struct op* s) {
  for (int p = 0; p < POOL; p++) { pool[p] = cbor_build_uint8(in_u8()); __CPROVER_assume(pool[p] != NULL); }
#if CAP >= 0
  cbor_item_t* a = cbor_new_definite_array(CAP);
#else
  cbor_item_t* a = cbor_new_indefinite_array();
#endif
  __CPROVER_assume(a != NULL);
  msize = 0;
  size_t got[POOL] = {0, 0, 0};
  for (int k = 0; k < SEQLEN; k++) {
    const struct op o = s[k];
    cbor_item_t* it = pool[o.item];
    if (o.kind == OP_PUSH || (o.kind == OP_SET && o.idx == msize)) {
      bool ok = o.kind == OP_PUSH ? cbor_array_push(a, it) : cbor_array_set(a, o.idx, it);
#if CAP >= 0
      bool expect = msize < CAP;
#else
      bool expect = true;
#endif
      VF_ASSERT(ok == expect, "append succeeds iff a definite array still has room (indefinite: always)");
      if (expect) model[msize++] = it;
    } else if (o.kind == OP_SET || o.kind == OP_REPLACE) {
      bool ok = o.kind == OP_SET ? cbor_array_set(a, o.idx, it) : cbor_array_replace(a, o.idx, it);
      bool expect = o.idx < msize;
      VF_ASSERT(ok == expect, "set/replace succeed iff the index is in range");
      if (expect) model[o.idx] = it;
    } else if (o.kind == OP_GET) {
      cbor_item_t* r = cbor_array_get(a, o.idx);
      if (o.idx < msize) {
        VF_ASSERT(r == model[o.idx], "get returns the element at the index");
        for (int p = 0; p < POOL; p++) if (pool[p] == r) got[p]++;
      } else {
        VF_ASSERT(r == NULL, "out-of-range get is refused with NULL");
      }
    }
    check_state(a, got);
  }
  /* client drops everything: references from get, the pool, the array */
  for (int p = 0; p < POOL; p++) for (size_t g = 0; g < SEQLEN; g++) if (g < got[p]) cbor_intermediate_decref(pool[p]);
  cbor_decref(&a);
  for (int p = 0; p < POOL; p++) { VF_ASSERT(cbor_refcount(pool[p]) == 1, "array released its elements"); cbor_decref(&pool[p]); }
  VF_ASSERT(a_live == 0, "nothing left allocated");
}

void harness(void) {
  a_install();
  for (int q = 0; q < NSEQ; q++) run_seq(SEQS[q]);
  VF_WITNESS();
}

#elif defined(M_MAPSEQ) || defined(M_CHUNKSEQ)
void harness(void) {
  a_install();
#if defined(M_MAPSEQ)
#if CAP >= 0
  cbor_item_t* c = cbor_new_definite_map(CAP);
#else
  cbor_item_t* c = cbor_new_indefinite_map();
#endif
#elif KIND == 3
  cbor_item_t* c = cbor_new_indefinite_bytestring();
#else
  cbor_item_t* c = cbor_new_indefinite_string();
#endif
  __CPROVER_assume(c != NULL);
  cbor_item_t* k[NADD]; cbor_item_t* v[NADD];
  size_t n = 0, reallocs0 = a_realloc_calls;
  for (int i = 0; i < NADD; i++) {
#if defined(M_MAPSEQ)
    k[i] = cbor_build_uint8(in_u8()); v[i] = cbor_build_negint8(in_u8());
    __CPROVER_assume(k[i] && v[i]);
    bool ok = cbor_map_add(c, (struct cbor_pair){.key = k[i], .value = v[i]});
#if CAP >= 0
    bool expect = n < CAP;
#else
    bool expect = true;
#endif
    VF_ASSERT(ok == expect, "add-pair succeeds iff a definite map still has room (indefinite: always)");
    if (expect) n++;
    VF_ASSERT(cbor_map_size(c) == n && n <= cbor_map_allocated(c), "map size tracks successful adds, size <= allocated");
    VF_ASSERT(cbor_refcount(k[i]) == (expect ? 2 : 1) && cbor_refcount(v[i]) == (expect ? 2 : 1), "pair members referenced iff stored");
    for (size_t j = 0; j < NADD; j++) if (j < n) VF_ASSERT(cbor_map_handle(c)[j].key == k[j] && cbor_map_handle(c)[j].value == v[j], "pairs in insertion order");
#else
    unsigned char b = in_u8();
    k[i] = KIND == 3 ? cbor_build_bytestring(&b, 1) : cbor_build_stringn((const char*)&b, 1);
    __CPROVER_assume(k[i]);
    bool ok = KIND == 3 ? cbor_bytestring_add_chunk(c, k[i]) : cbor_string_add_chunk(c, k[i]);
    VF_ASSERT(ok, "add-chunk on an indefinite string always succeeds when memory is available");
    n++;
    size_t cnt = KIND == 3 ? cbor_bytestring_chunk_count(c) : cbor_string_chunk_count(c);
    VF_ASSERT(cnt == n && n <= ((struct cbor_indefinite_string_data*)c->data)->chunk_capacity, "chunk count tracks adds, count <= capacity");
    VF_ASSERT(cbor_refcount(k[i]) == 2, "chunk referenced by the string");
    for (size_t j = 0; j < NADD; j++) if (j < n) VF_ASSERT((KIND == 3 ? cbor_bytestring_chunks_handle(c) : cbor_string_chunks_handle(c))[j] == k[j], "chunks in insertion order");
#endif
  }
#if !defined(M_MAPSEQ) || CAP < 0
  { size_t r = a_realloc_calls - reallocs0, lim = 0, cap = 1; while (cap < n) { cap *= 2; lim++; } VF_ASSERT(r <= lim + 1, "n insertions cost at most ceil(log2 n)+1 reallocations"); }
#endif
  cbor_decref(&c);
  for (int i = 0; i < NADD; i++) {
    VF_ASSERT(cbor_refcount(k[i]) == 1, "container released its members"); cbor_decref(&k[i]);
#if defined(M_MAPSEQ)
    cbor_decref(&v[i]);
#endif
  }
  VF_ASSERT(a_live == 0, "nothing left allocated");
  VF_WITNESS();
}

#elif defined(M_GROWLEMMA)
/* The container is full with capacity = size = ANY size_t; every allocator request is recorded and refused. */
void harness(void) {
  a_install();
  cbor_item_t* e = cbor_build_uint8(in_u8());
#if KIND == 3
  { unsigned char b = 0; cbor_decref(&e); e = cbor_build_bytestring(&b, 1); }
#elif KIND == 4
  { unsigned char b = 0; cbor_decref(&e); e = cbor_build_stringn((const char*)&b, 1); }
#endif
#if KIND == 1
  cbor_item_t* c = cbor_new_indefinite_array();
#elif KIND == 2
  cbor_item_t* c = cbor_new_indefinite_map();
#elif KIND == 3
  cbor_item_t* c = cbor_new_indefinite_bytestring();
#else
  cbor_item_t* c = cbor_new_indefinite_string();
#endif
  __CPROVER_assume(c != NULL && e != NULL);
  size_t cap = in_size();
  const size_t elem = KIND == 2 ? sizeof(struct cbor_pair) : sizeof(cbor_item_t*);
#if KIND == 1
  c->metadata.array_metadata.allocated = cap; c->metadata.array_metadata.end_ptr = cap;
#elif KIND == 2
  c->metadata.map_metadata.allocated = cap; c->metadata.map_metadata.end_ptr = cap;
#else
  ((struct cbor_indefinite_string_data*)c->data)->chunk_capacity = cap; ((struct cbor_indefinite_string_data*)c->data)->chunk_count = cap;
#endif
  a_inject = true; a_failstop = true; a_failk = 0; a_reqs = 0;
  size_t rc0 = cbor_refcount(e);
#if KIND == 1
  bool ok = cbor_array_push(c, e);
#elif KIND == 2
  bool ok = cbor_map_add(c, (struct cbor_pair){.key = e, .value = e});
#elif KIND == 3
  bool ok = cbor_bytestring_add_chunk(c, e);
#else
  bool ok = cbor_string_add_chunk(c, e);
#endif
  a_inject = false;
  VF_ASSERT(!ok, "insertion whose growth was refused (or impossible) reports failure");
  /* policy-independent: the request is a whole number of elements, strictly more than the old capacity, and at least geometric
     (>= 1.5 x old once old >= 2); the configured factor CBOR_BUFFER_GROWTH only enters the "gave up" clause */
  if (a_realloc_calls) {
    VF_ASSERT(a_realloc_calls == 1, "exactly one growth request");
    size_t asked = a_last_realloc_size;
    VF_ASSERT(asked % elem == 0, "growth request is a whole number of elements");
    size_t newcap = asked / elem;
    VF_ASSERT(newcap > cap, "growth never computes a capacity that is not larger than the old one (no wrapped product)");
    if (cap >= 2) VF_ASSERT(newcap - cap >= cap / 2, "growth is geometric (at least 1.5 x)");
  } else {
    VF_ASSERT((u128)cap * CBOR_BUFFER_GROWTH > SIZE_MAX / 2 / elem, "growth is given up without a request only when the size computation could overflow");
  }
#if KIND == 1
  VF_ASSERT(c->metadata.array_metadata.allocated == cap && c->metadata.array_metadata.end_ptr == cap, "metadata unchanged after failed growth");
#elif KIND == 2
  VF_ASSERT(c->metadata.map_metadata.allocated == cap && c->metadata.map_metadata.end_ptr == cap, "metadata unchanged after failed growth");
#else
  VF_ASSERT(((struct cbor_indefinite_string_data*)c->data)->chunk_capacity == cap && ((struct cbor_indefinite_string_data*)c->data)->chunk_count == cap, "metadata unchanged after failed growth");
#endif
  VF_ASSERT(cbor_refcount(e) == rc0, "pushee reference count unchanged after failed growth");
  VF_WITNESS();
}

#elif defined(M_GROWCOUNT)
void harness(void) {
  a_install();
  cbor_item_t* e = cbor_build_uint8(in_u8());
  cbor_item_t* c = cbor_new_indefinite_array();
  __CPROVER_assume(c != NULL && e != NULL);
  size_t lastcap = 0;
  for (int i = 0; i < 16; i++) {
    bool ok = cbor_array_push(c, e);
    VF_ASSERT(ok, "indefinite arrays accept any number of entries");
    size_t cap = cbor_array_allocated(c);
    VF_ASSERT(cap >= lastcap && cap >= cbor_array_size(c), "capacity never shrinks and covers the size");
    if (cap != lastcap && lastcap >= 2) VF_ASSERT(cap - lastcap >= lastcap / 2, "capacity grows geometrically (at least 1.5 x)");
    lastcap = cap;
  }
  VF_ASSERT(a_realloc_calls <= 8, "16 insertions cost a logarithmic number of reallocations (<= ceil(log_1.5 16) + 1)");
  VF_ASSERT(cbor_refcount(e) == 17, "one reference per slot plus the client's");
  cbor_decref(&c);
  VF_ASSERT(cbor_refcount(e) == 1, "released");
  cbor_decref(&e);
  VF_ASSERT(a_live == 0, "nothing left allocated");
  VF_WITNESS();
}
#endif
