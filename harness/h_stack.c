/* C19 (b): the decoding stack from ANY size, default configuration (CBOR_MAX_STACK_SIZE as configured by the build).
 * push succeeds iff size < limit (memory granted) and then size' = size + 1; pop gives size - 1; every opening callback either
 * pushes exactly one frame or reports creation_failed and leaves no allocation behind. */
#include "alloc.h"
#include "cbor/internal/builder_callbacks.h"
#include "cbor/internal/stack.h"
#define M_PUSHPOP 1
#define M_OPENER 2

void harness(void) {
  a_install();
  struct _cbor_stack_record base = {.lower = NULL, .item = NULL, .subitems = 0};
  struct _cbor_stack stack = {.top = &base, .size = in_size()};
  size_t s0 = stack.size;
  __CPROVER_assume(s0 <= CBOR_MAX_STACK_SIZE); /* representation invariant: size starts at 0 and grows by one only below the limit */
#if MODE == M_PUSHPOP
  cbor_item_t* it = cbor_new_indefinite_array(); __CPROVER_assume(it != NULL);
  size_t sub = in_size();
  struct _cbor_stack_record* r = _cbor_stack_push(&stack, it, sub);
  if (s0 < CBOR_MAX_STACK_SIZE) {
    VF_ASSERT(r != NULL && stack.size == s0 + 1 && stack.top == r, "push below the limit succeeds and adds exactly one frame");
    VF_ASSERT(r->lower == &base && r->item == it && r->subitems == sub, "frame records item, expected subitems and the frame below");
    _cbor_stack_pop(&stack);
    VF_ASSERT(stack.size == s0 && stack.top == &base, "pop removes exactly one frame");
  } else {
    VF_ASSERT(r == NULL && stack.size == s0 && stack.top == &base, "push at the limit is refused and leaves the stack unchanged");
  }
  VF_ASSERT(a_live == 1, "no frame leaked");
#else
  /* the item on top decides where a completed child goes; an indefinite array accepts anything */
  cbor_item_t* parent = cbor_new_indefinite_array(); __CPROVER_assume(parent != NULL);
  base.item = parent;
  struct _cbor_decoder_context ctx = {.creation_failed = false, .syntax_error = false, .root = NULL, .stack = &stack};
  __CPROVER_assume(s0 >= 1 && s0 <= CBOR_MAX_STACK_SIZE);
  size_t live0 = a_live;
#if OPENER == 1
  cbor_builder_tag_callback(&ctx, in_u64());
#elif OPENER == 2
  cbor_builder_byte_string_start_callback(&ctx);
#elif OPENER == 3
  cbor_builder_string_start_callback(&ctx);
#elif OPENER == 4
  cbor_builder_indef_array_start_callback(&ctx);
#elif OPENER == 5
  cbor_builder_indef_map_start_callback(&ctx);
#elif OPENER == 6
  cbor_builder_array_start_callback(&ctx, 2);
#elif OPENER == 7
  cbor_builder_map_start_callback(&ctx, 1);
#elif OPENER == 8
  cbor_builder_array_start_callback(&ctx, 0); /* empty definite containers complete at once and push nothing */
#else
  cbor_builder_map_start_callback(&ctx, 0);
#endif
  VF_ASSERT(!ctx.syntax_error, "opening a container inside an array is never a syntax error");
#if OPENER >= 8
  VF_ASSERT(!ctx.creation_failed && stack.size == s0 && cbor_array_size(parent) == 1, "empty definite container is complete at once: appended to its parent, no frame, regardless of the depth");
#else
  if (s0 < CBOR_MAX_STACK_SIZE) {
    VF_ASSERT(!ctx.creation_failed && stack.size == s0 + 1, "below the limit the container is opened with exactly one new frame");
    VF_ASSERT(stack.top->lower == &base && stack.top->item != NULL && cbor_refcount(stack.top->item) == 1, "new frame on top holds the fresh container");
  } else {
    VF_ASSERT(ctx.creation_failed && stack.size == s0 && stack.top == &base, "at the limit the container is refused: creation_failed, stack unchanged");
    VF_ASSERT(a_live == live0, "the refused container is released");
  }
#endif
#endif
  VF_WITNESS();
}
