/* Harness allocators installed through the real cbor_set_allocs.
 *  counting : requests and live blocks
 *  refusing : request FAILK alone, or FAILK and all later (FAILSTOP)
 *  recording: sizes of the last requests; refuses anything above A_BIG so huge requests are observed, never dereferenced */
#ifndef ALLOC_H
#define ALLOC_H
#include "cbor.h"
#include "vf.h"
static size_t a_live, a_reqs, a_frees;
static bool a_inject;            /* refusing mode armed */
static size_t a_failk;           /* index of the refused request */
static bool a_failstop;          /* refuse failk and all later */
static bool a_record;            /* recording mode: refuse above A_BIG */
static size_t a_last_size, a_last_realloc_size;
static size_t a_malloc_calls, a_realloc_calls;
#ifndef A_BIG
#define A_BIG 4096
#endif
#ifdef TAGGING_ALLOC
/* C13: every block carries a hidden 16-byte header (magic + live flag) in front of the pointer handed to the library.
 * A block that did not come from this allocator fails the magic check when released or resized; a tagged block handed to
 * the C library's free/realloc is an interior pointer (CBMC: "free argument has offset zero" fails; natively: ASan/glibc abort). */
#define A_MAGIC 0xC0FFEE5A5A11D00DULL
struct a_hdr { uint64_t magic; uint64_t live; };
static void* a_tag(void* raw) { struct a_hdr* h = (struct a_hdr*)raw; h->magic = A_MAGIC; h->live = 1; return (unsigned char*)raw + sizeof(struct a_hdr); }
static struct a_hdr* a_untag(void* p) {
  struct a_hdr* h = (struct a_hdr*)((unsigned char*)p - sizeof(struct a_hdr));
  VF_ASSERT(h->magic == A_MAGIC, "block released/resized was obtained from the installed allocator");
  VF_ASSERT(h->live == 1, "block released/resized is still live (handed to the installed free exactly once)");
  return h;
}
#endif
static bool a_should_fail(void) { size_t i = a_reqs++; return a_inject && (a_failstop ? i >= a_failk : i == a_failk); }
static void* a_malloc(size_t n) {
  a_malloc_calls++; a_last_size = n;
  if (a_should_fail()) return NULL;
  if (a_record && n > A_BIG) return NULL;
#ifdef TAGGING_ALLOC
  void* raw = malloc(n + sizeof(struct a_hdr) + (n == 0)); __CPROVER_assume(raw != NULL); a_live++; return a_tag(raw); /* +1 for n == 0: the user pointer must lie inside the object */
#else
  void* p = malloc(n); __CPROVER_assume(p != NULL); a_live++; return p;
#endif
}
static void* a_realloc(void* q, size_t n) {
  a_realloc_calls++; a_last_realloc_size = n;
  if (a_should_fail()) return NULL;
  if (a_record && n > A_BIG) return NULL;
#ifdef TAGGING_ALLOC
  void* rawq = NULL;
  if (q) { struct a_hdr* h = a_untag(q); rawq = h; }
  void* raw = realloc(rawq, n + sizeof(struct a_hdr) + (n == 0)); __CPROVER_assume(raw != NULL); if (!q) a_live++; return a_tag(raw);
#else
  void* p = realloc(q, n); __CPROVER_assume(p != NULL); if (!q) a_live++; return p;
#endif
}
#ifdef TAGGING_ALLOC
static void a_free(void* p) { if (!p) return; struct a_hdr* h = a_untag(p); h->live = 0; h->magic = 0; a_live--; a_frees++; free(h); }
#else
static void a_free(void* p) { if (p) { a_live--; a_frees++; } free(p); }
#endif
static void a_install(void) { cbor_set_allocs(a_malloc, a_realloc, a_free); }
#endif
