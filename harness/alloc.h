/* Harness allocators installed through the real cbor_set_allocs.
 *  counting : requests and live blocks
 *  refusing : request FAILK alone, or FAILK and all later (FAILSTOP)
 *  recording: sizes of the last requests; refuses anything above A_BIG so huge requests are observed, never dereferenced */
#ifndef ALLOC_H
#define ALLOC_H
#include "cbor.h"
#include "vf.h"
static size_t a_live, a_reqs, a_frees;
static bool a_inject;            /* refusing mode armed */
static size_t a_failk;           /* index of the refused request */
static bool a_failstop;          /* refuse failk and all later */
static bool a_record;            /* recording mode: refuse above A_BIG */
static size_t a_last_size, a_last_realloc_size;
static size_t a_malloc_calls, a_realloc_calls;
#ifndef A_BIG
#define A_BIG 4096
#endif
static bool a_should_fail(void) { size_t i = a_reqs++; return a_inject && (a_failstop ? i >= a_failk : i == a_failk); }
static void* a_malloc(size_t n) {
  a_malloc_calls++; a_last_size = n;
  if (a_should_fail()) return NULL;
  if (a_record && n > A_BIG) return NULL;
  void* p = malloc(n); __CPROVER_assume(p != NULL); a_live++; return p;
}
static void* a_realloc(void* q, size_t n) {
  a_realloc_calls++; a_last_realloc_size = n;
  if (a_should_fail()) return NULL;
  if (a_record && n > A_BIG) return NULL;
  void* p = realloc(q, n); __CPROVER_assume(p != NULL); if (!q) a_live++; return p;
}
static void a_free(void* p) { if (p) { a_live--; a_frees++; } free(p); }
static void a_install(void) { cbor_set_allocs(a_malloc, a_realloc, a_free); }
#endif
