/* C16: code point count vs an independent RFC 3629 validator. */
#include "alloc.h"
#include "cbor/internal/unicode.h"
#define M_SET_HANDLE 1  /* every byte string of length <= MAXL through cbor_string_set_handle */
#define M_BUILDN 2      /* ... through cbor_build_stringn */
#define M_LOAD 3        /* cbor_load of a definite text item with concrete length LEN and symbolic content */
#define M_DFA_STEP 4    /* one DFA step from ANY state on ANY byte vs the reference automaton (induction step for any length) */
#define M_COUNT_STEP 5  /* the counting loop's per-byte behaviour: unrolled once from an arbitrary loop state */
#ifndef MAXL
#define MAXL 6
#endif
uint32_t _cbor_unicode_decode(uint32_t* state, uint32_t* codep, uint32_t byte);

/* RFC 3629 section 4 ABNF / Unicode Table 3-7: per lead byte, number of continuation bytes and the range of the first one */
static long ref_utf8(const unsigned char* s, size_t n) {
  size_t i = 0; long cnt = 0;
  while (i < n) {
    unsigned char b = s[i];
    size_t need; unsigned char lo = 0x80, hi = 0xBF;
    if (b <= 0x7F) need = 0;
    else if (b >= 0xC2 && b <= 0xDF) need = 1;
    else if (b == 0xE0) { need = 2; lo = 0xA0; }
    else if (b >= 0xE1 && b <= 0xEC) need = 2;
    else if (b == 0xED) { need = 2; hi = 0x9F; }
    else if (b >= 0xEE && b <= 0xEF) need = 2;
    else if (b == 0xF0) { need = 3; lo = 0x90; }
    else if (b >= 0xF1 && b <= 0xF3) need = 3;
    else if (b == 0xF4) { need = 3; hi = 0x8F; }
    else return -1;
    if (n - i - 1 < need) return -1;
    for (size_t k = 1; k <= need; k++) {
      unsigned char c = s[i + k];
      if (k == 1) { if (c < lo || c > hi) return -1; } else if (c < 0x80 || c > 0xBF) return -1;
    }
    i += need + 1; cnt++;
  }
  return cnt;
}

/* Reference automaton for the step lemma. State = (continuation bytes still needed, allowed range of the next byte).
 * Encoded as the DFA's own state numbers only through this table; semantics are spelled out here. */
struct rstate { int reject; unsigned need; unsigned char lo, hi; };
static struct rstate ref_state(uint32_t s) {
  struct rstate r = {0, 0, 0x80, 0xBF};
  switch (s) {
    case 0: break;                                   /* between code points */
    case 1: r.reject = 1; break;
    case 2: r.need = 1; break;
    case 3: r.need = 2; break;
    case 4: r.need = 2; r.lo = 0xA0; break;          /* after E0 */
    case 5: r.need = 2; r.hi = 0x9F; break;          /* after ED */
    case 6: r.need = 3; r.lo = 0x90; break;          /* after F0 */
    case 7: r.need = 3; break;                       /* after F1..F3 */
    default: r.need = 3; r.hi = 0x8F; break;         /* 8: after F4 */
  }
  return r;
}
static uint32_t ref_step(uint32_t s, unsigned char b) {
  struct rstate r = ref_state(s);
  if (r.reject) return 1;
  if (r.need == 0) {
    if (b <= 0x7F) return 0;
    if (b >= 0xC2 && b <= 0xDF) return 2;
    if (b == 0xE0) return 4;
    if (b == 0xED) return 5;
    if (b >= 0xE1 && b <= 0xEF) return 3;
    if (b == 0xF0) return 6;
    if (b >= 0xF1 && b <= 0xF3) return 7;
    if (b == 0xF4) return 8;
    return 1;
  }
  if (b < r.lo || b > r.hi) return 1;
  return r.need == 1 ? 0 : r.need == 2 ? 2 : 3;     /* remaining continuation bytes are unconstrained 80..BF */
}

void harness(void) {
#if MODE == M_SET_HANDLE || MODE == M_BUILDN
  size_t n = in_size();
  __CPROVER_assume(n <= MAXL);
  unsigned char* s = vf_sym_block(n);
  unsigned char snap[MAXL + 1];
  for (size_t i = 0; i < MAXL; i++) if (i < n) snap[i] = s[i];
  long r = ref_utf8(s, n);
#if MODE == M_SET_HANDLE
  cbor_item_t* it = cbor_new_definite_string();
  __CPROVER_assume(it != NULL);
  cbor_string_set_handle(it, s, n);
  VF_ASSERT(cbor_string_handle(it) == s, "handle preserved");
#else
  cbor_item_t* it = cbor_build_stringn((const char*)s, n);
  __CPROVER_assume(it != NULL);
  VF_ASSERT(cbor_string_handle(it) != s, "build copies the bytes");
#endif
  VF_ASSERT(cbor_string_codepoint_count(it) == (r < 0 ? 0 : (size_t)r), "code point count = strict UTF-8 count, or 0 if invalid");
  VF_ASSERT(cbor_string_length(it) == n, "byte length preserved");
  VF_ASSERT(cbor_string_is_definite(it), "definite");
  for (size_t i = 0; i < MAXL; i++) if (i < n) VF_ASSERT(cbor_string_handle(it)[i] == snap[i] && s[i] == snap[i], "content preserved");
#if MODE == M_BUILDN
  free(s);
#endif
  cbor_decref(&it);
#elif MODE == M_LOAD
  unsigned char* buf = vf_block(1 + LEN);
  buf[0] = 0x60 | LEN;
  unsigned char snap[LEN + 1];
  for (size_t i = 0; i < LEN; i++) { buf[1 + i] = in_u8(); snap[i] = buf[1 + i]; }
  long r = ref_utf8(buf + 1, LEN);
  struct cbor_load_result res;
  cbor_item_t* it = cbor_load(buf, 1 + LEN, &res);
  VF_ASSERT(it != NULL && res.error.code == CBOR_ERR_NONE && res.read == 1 + LEN, "decoding never rejects a text string because of its content");
  __CPROVER_assume(it != NULL);
  free(buf);
  VF_ASSERT(cbor_isa_string(it) && cbor_string_is_definite(it) && cbor_string_length(it) == LEN, "definite text string of the declared length");
  VF_ASSERT(cbor_string_codepoint_count(it) == (r < 0 ? 0 : (size_t)r), "decoded string: code point count = strict UTF-8 count, or 0");
  for (size_t i = 0; i < LEN; i++) VF_ASSERT(cbor_string_handle(it)[i] == snap[i], "content preserved");
  cbor_decref(&it);
#elif MODE == M_DFA_STEP
  uint32_t st = in_u32(); unsigned char b = in_u8();
  __CPROVER_assume(st <= 8);
  uint32_t state = st, cp = in_u32();
  uint32_t res = _cbor_unicode_decode(&state, &cp, b);
  VF_ASSERT(res == state, "decode returns the new state");
  VF_ASSERT(state <= 8, "state stays in range");
  VF_ASSERT(state == ref_step(st, b), "DFA transition equals the RFC 3629 reference automaton");
#elif MODE == M_COUNT_STEP
  /* two-byte strings from the start state are covered by M_SET_HANDLE; here: the counter on a 1-byte string equals
     (accept ? 1 : 0) and error iff not accept, for every byte -- the base of the induction */
  unsigned char* s = vf_sym_block(1);
  struct _cbor_unicode_status stt;
  size_t c = _cbor_unicode_codepoint_count(s, 1, &stt);
  uint32_t ns = ref_step(0, s[0]);
  VF_ASSERT(c == (ns == 0 ? 1 : 0), "one-byte string: counted iff ASCII");
  VF_ASSERT((stt.status == _CBOR_UNICODE_OK) == (ns == 0), "status OK iff the automaton is back between code points");
  free(s);
#endif
  VF_WITNESS();
}
