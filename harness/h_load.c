/* Decoder-side tree-layer harness: runs every generated case (cases.h) through cbor_load.
 *   -DP_SAFETY : C01  all truncations; on success describe / size / serialize(symbolic n) / copy / release; only CBMC's
 *                     built-in safety properties, CBOR_ASSERT and leak freedom are asserted
 *   -DP_TREE   : C02  accept iff the reference accepts; read; tree == expected (all data symbolic); refcount 1; input freed first
 *   -DP_ERR    : C05  result pre-filled with nondeterministic values; (code, position) in the reference's allowed set; read == position
 *   -DP_SUFFIX=k : C14 the accepted item followed by k fully symbolic bytes: same read, same tree
 */
#include "cases.h"

#ifndef P_SUFFIX
#define P_SUFFIX 0
#endif

static void run_one(const struct xcase* c, const struct xout* o, const unsigned char* D, size_t extra) {
  size_t len = o->len + extra;
  unsigned char* buf = vf_block(len);
  for (size_t i = 0; i < MAX_SK + P_SUFFIX; i++) if (i < len) buf[i] = D[i];
  struct cbor_load_result res;
#if defined(P_ERR) || defined(P_TREE)
  /* every field starts out arbitrary: a field cbor_load leaves unwritten fails the assertions below for some value */
  res.read = in_size(); res.error.position = in_size(); res.error.code = (cbor_error_code)(in_u8() % 6);
#endif
  size_t live0 = a_live;
  cbor_item_t* it = cbor_load(buf, len, &res);
  free(buf); /* the input may be freed at once: any pointer into it left in the tree is a use-after-free below */

  VF_ASSERT((it != NULL) == (res.error.code == CBOR_ERR_NONE), "outcome is an item, or NULL plus an error code");
#if defined(P_TREE) || defined(P_ERR) || P_SUFFIX
  VF_ASSERT((it != NULL) == (o->ok != 0), "cbor_load succeeds iff the input begins with a well-formed item in the supported profile");
#endif
  if (it != NULL) {
#if defined(P_TREE) || P_SUFFIX
    VF_ASSERT(res.read == o->read, "bytes read = encoded length of the first item");
    if (o->ok) { size_t ix = 0; tree_check(it, c->xn, &ix, D, 1); VF_ASSERT(ix == c->nn, "whole expected tree visited"); }
#endif
#ifdef P_SAFETY
    cbor_describe(it, stdout);
    size_t sz = cbor_serialized_size(it);
    size_t bn = in_size();
    __CPROVER_assume(bn <= sz + 1);
    unsigned char* out = vf_block(bn);
    size_t w = cbor_serialize(it, out, bn);
    VF_ASSERT(w <= bn, "serialize never reports more than the buffer holds");
    free(out);
    cbor_item_t* cp = cbor_copy(it);
    VF_ASSERT(cp != NULL, "copy of a decoded tree succeeds when memory is available");
    if (cp != NULL) cbor_decref(&cp);
#endif
    cbor_decref(&it);
    VF_ASSERT(it == NULL, "last reference released");
  } else {
#if defined(P_ERR)
    if (!o->ok) {
      bool m = false;
      for (int k = 0; k < 3; k++) if (k < o->nallowed && (int)res.error.code == o->allowed[k].code && res.error.position == o->allowed[k].pos) m = true;
      VF_ASSERT(m, "error code and position are those of the first violation (reference decoder)");
      if (res.error.code != CBOR_ERR_NODATA) VF_ASSERT(res.read == res.error.position, "read field filled in consistently");
      else VF_ASSERT(res.read == 0 && res.error.position == 0, "empty input: every field filled in");
    }
#endif
  }
  VF_ASSERT(a_live == live0, "nothing stays allocated after the tree (or the failed decode) is released");
}

static void run_case(int id, const struct xcase* c) {
  vf_case = id;
  unsigned char D[MAX_SK + P_SUFFIX + 1];
  for (size_t i = 0; i < MAX_SK; i++) if (i < c->n) D[i] = c->sk[i] < 0 ? in_u8() : (unsigned char)c->sk[i];
#if P_SUFFIX
  for (size_t i = 0; i < P_SUFFIX; i++) D[c->n + i] = in_u8();
  run_one(c, &c->xo[c->no - 1], D, P_SUFFIX);
#else
  for (size_t t = 0; t < MAX_SK + 1; t++) if (t < c->no) run_one(c, &c->xo[t], D, 0);
#endif
}

#ifdef P_SEQ
/* C14: a CBOR sequence x||y||x is split by the documented loop (offset += read) into exactly those items */
static void run_seq(int id, const struct xcase* a, const struct xcase* b) {
  vf_case = id;
  unsigned char Da[MAX_SK + 1], Db[MAX_SK + 1], Dc[MAX_SK + 1];
  for (size_t i = 0; i < MAX_SK; i++) {
    if (i < a->n) { Da[i] = a->sk[i] < 0 ? in_u8() : (unsigned char)a->sk[i]; Dc[i] = a->sk[i] < 0 ? in_u8() : (unsigned char)a->sk[i]; }
    if (i < b->n) Db[i] = b->sk[i] < 0 ? in_u8() : (unsigned char)b->sk[i];
  }
  size_t len = 2 * a->n + b->n;
  unsigned char* buf = vf_block(len);
  for (size_t i = 0; i < MAX_SK; i++) { if (i < a->n) { buf[i] = Da[i]; buf[a->n + b->n + i] = Dc[i]; } if (i < b->n) buf[a->n + i] = Db[i]; }
  size_t off = 0;
  for (int k = 0; k < 3; k++) {
    const struct xcase* c = k == 1 ? b : a; const unsigned char* D = k == 0 ? Da : k == 1 ? Db : Dc;
    struct cbor_load_result res;
    VF_ASSERT(off < len, "items remain while the buffer is not exhausted");
    cbor_item_t* it = cbor_load(buf + off, len - off, &res);
    VF_ASSERT(it != NULL && res.error.code == CBOR_ERR_NONE, "each item of a sequence decodes");
    __CPROVER_assume(it != NULL);
    VF_ASSERT(res.read == c->n, "bytes read = that item's length");
    size_t ix = 0; tree_check(it, c->xn, &ix, D, 1);
    cbor_decref(&it);
    off += res.read;
  }
  VF_ASSERT(off == len, "the sequence is split into exactly its items, finishing at the end of the buffer");
  free(buf);
}
#endif

void harness(void) {
  a_install();
#ifdef P_RECORD
  a_record = true; /* oversize requests (> A_BIG bytes) are refused, as any real allocator would refuse 2^60-element tables */
#endif
#ifdef P_SEQ
  FOR_EACH_PAIR(run_seq)
#else
  FOR_EACH_CASE(run_case)
#endif
  VF_ASSERT(a_live == 0, "no allocation outlives the run");
  VF_WITNESS();
}
