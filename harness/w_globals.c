/* C17 census support (native, not a solver step): a fixed single-threaded API workload is run twice while the byte ranges of the
 * library's static-lifetime writable objects (addresses from nm on this very executable, passed in VF_WATCH) are snapshotted.
 * Any range that changes is hidden mutable global state written during ordinary API use. */
#include <stdio.h>
#include <stdlib.h>
#include <string.h>
#include "cbor.h"

static void workload(FILE* sink) {
  static const unsigned char inputs[][40] = {
      {0x9f, 0x18, 0x2a, 0x62, 0x68, 0x69, 0xc1, 0x1b, 1, 2, 3, 4, 5, 6, 7, 8, 0xa1, 0xf9, 0x3c, 0x00, 0x5f, 0x41, 0x7a, 0xff, 0xff},
      {0x83, 0x01, 0x82, 0x02, 0x03, 0xbf, 0x61, 0x61, 0xfb, 0x40, 0x09, 0x21, 0xfb, 0x54, 0x44, 0x2d, 0x18, 0xff},
      {0x7f, 0x63, 0xe2, 0x82, 0xac, 0x61, 0x78, 0xff}, {0xd8, 0x20, 0x78, 0x03, 0x61, 0x62, 0x63}, {0xfa, 0x7f, 0xc0, 0x00, 0x01}, {0x38, 0xff},
      {0x9f, 0x01}, {0x1c}, {0xff}, {0x5f, 0x01}, {0xbf, 0x01, 0xff}, {0x62, 0xc3, 0x28}};
  static const size_t lens[] = {25, 18, 8, 7, 5, 2, 2, 1, 1, 2, 3, 3};
  for (size_t k = 0; k < sizeof lens / sizeof lens[0]; k++) {
    struct cbor_load_result res;
    cbor_item_t* it = cbor_load(inputs[k], lens[k], &res);
    if (!it) continue;
    cbor_describe(it, sink);
    unsigned char* buf = NULL; size_t bl = 0;
    if (cbor_serialize_alloc(it, &buf, &bl)) free(buf);
    unsigned char small[8];
    (void)cbor_serialize(it, small, sizeof small);
    (void)cbor_serialized_size(it);
    cbor_item_t* cp = cbor_copy(it);
    if (cp) cbor_decref(&cp);
    cbor_decref(&it);
  }
  /* construction API */
  cbor_item_t* a = cbor_new_indefinite_array();
  cbor_item_t* m = cbor_new_definite_map(1);
  cbor_item_t* k = cbor_build_string("key"); cbor_item_t* v = cbor_build_float2(1.5f);
  (void)cbor_map_add(m, (struct cbor_pair){.key = k, .value = v});
  (void)cbor_array_push(a, m); (void)cbor_array_push(a, cbor_move(cbor_build_negint64(77)));
  cbor_item_t* t = cbor_build_tag(1234567, a);
  cbor_item_t* s = cbor_new_indefinite_bytestring(); cbor_item_t* c = cbor_build_bytestring((const unsigned char*)"xy", 2);
  (void)cbor_bytestring_add_chunk(s, c); (void)cbor_array_push(a, s);
  unsigned char out[128];
  (void)cbor_serialize(t, out, sizeof out);
  cbor_describe(t, sink);
  cbor_item_t* g = cbor_array_get(a, 0); cbor_decref(&g);
  cbor_decref(&c); cbor_decref(&s); cbor_decref(&k); cbor_decref(&v); cbor_decref(&m); cbor_decref(&a); cbor_decref(&t);
  /* low-level encoders and streaming decoder */
  (void)cbor_encode_half(0.00006f, out, 3); (void)cbor_encode_uint(1ULL << 40, out, 9); (void)cbor_encode_string_start(300, out, 9);
  struct cbor_callbacks cbs = cbor_empty_callbacks;
  (void)cbor_stream_decode(inputs[0], lens[0], &cbs, NULL);
}

int main(void) {
  const char* w = getenv("VF_WATCH");
  FILE* sink = fopen("/dev/null", "w");
  unsigned long addr[64]; unsigned long size[64]; char name[64][64]; int n = 0;
  while (w && *w && n < 64) {
    if (sscanf(w, "%lx:%lx:%63[^,]", &addr[n], &size[n], name[n]) == 3) n++;
    w = strchr(w, ','); if (w) w++;
  }
  unsigned char* snap[64];
  for (int i = 0; i < n; i++) { snap[i] = malloc(size[i]); memcpy(snap[i], (void*)addr[i], size[i]); }
  int changed = 0;
  for (int round = 0; round < 2; round++) {
    workload(sink);
    for (int i = 0; i < n; i++) if (memcmp(snap[i], (void*)addr[i], size[i]) != 0) { printf("CHANGED %s round=%d\n", name[i], round); changed = 1; memcpy(snap[i], (void*)addr[i], size[i]); }
  }
  printf("watched=%d changed=%d\n", n, changed);
  return changed ? 1 : 0;
}
