from vf import Obl

ID = "C08"
FUNCS = ["cbor_stream_decode", "claim_bytes", "_cbor_load_uint8", "_cbor_load_uint16", "_cbor_load_uint32",
         "_cbor_load_uint64", "_cbor_load_half", "_cbor_decode_half", "_cbor_load_float", "_cbor_load_double"]


def obligations(tier):
    obls = []
    maxn = 12 if tier == "quick" else 16
    for variant in ("dbg", "ndbg"):
        obls.append(Obl("stream_decode_all_buffers_le%d_%s" % (maxn, variant), "h_stream.c", {"MAXN": maxn}, variant=variant,
                        unwind=maxn + 2, timeout=600, funcs=FUNCS,
                        desc="every buffer of 0..%d fully symbolic bytes (exact-size heap block) vs RFC 8949 head reference; "
                             "status/read/required/callback slot/argument/payload pointer; second call on copy truncated to `read`" % maxn,
                        bounds="buffer length <= %d, all byte values, all declared lengths 0..2^64-1" % maxn,
                        sample={"buffer": "n<=%d symbolic bytes" % maxn}))
    if tier == "thorough":
        for be in ("cadical",):
            obls.append(Obl("stream_decode_all_buffers_le12_dbg_%s" % be, "h_stream.c", {"MAXN": 12}, variant="dbg",
                            unwind=14, timeout=1800, funcs=FUNCS, backend=be,
                            desc="same query cross-checked on back end %s" % be, bounds="buffer length <= 12"))
    return obls


META = dict(
    level="model_checking",
    functions=FUNCS,
    exhaustive=True,
    bounds={"quick": "all buffers of length 0..12 (complete for every head form; string payload presence up to 3 bytes; every declared length 0..2^64-1)",
            "thorough": "all buffers of length 0..16, plus length<=12 re-decided on CaDiCaL (z3 gives no verdict in 1800 s)"},
    assumptions=["CBMC LP64 little-endian model", "ldexp model (models.c), exact for the only call sites",
                 "allocator pointers replaced via cbor_set_allocs by functions that assert(0) (allocates-nothing clause); direct libc calls are covered by C13's census"],
    outside=["buffers longer than the bound: only the payload length differs, payload bytes are never read by the decoder",
             "static mutable state in streaming.c is excluded by C17's census rather than here"],
    explanation="One CBMC query per build variant quantifies over every buffer length <= N and every byte value; the oracle is an "
                "independent head decoder (major type / additional info arithmetic, no table). The query is exhaustive inside the bound.",
)
