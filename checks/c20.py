from vf import Obl

ID = "C20"
F = ["_cbor_safe_to_multiply", "_cbor_safe_to_add", "_cbor_safe_signaling_add", "_cbor_highest_bit", "_cbor_alloc_multiple",
     "_cbor_realloc_multiple", "_cbor_encoded_header_size", "cbor_serialized_size", "cbor_builder_array_start_callback",
     "cbor_builder_map_start_callback", "cbor_new_definite_array", "cbor_new_definite_map", "cbor_array_push", "_cbor_map_add_key",
     "cbor_string_add_chunk", "cbor_bytestring_add_chunk"]
HB = ["_cbor_highest_bit.0:66"]


def obligations(tier):
    o = []
    def add(name, defs, desc, bounds, **kw):
        kw.setdefault("unwind", 6)
        kw.setdefault("unwindset", HB)
        o.append(Obl(name, "h_arith.c", defs, funcs=F, desc=desc, bounds=bounds, sample=defs, timeout=kw.pop("timeout", 600), **kw))
    add("safe_to_multiply_all_2^128_pairs", {"MODE": "M_MUL"}, "safe_to_multiply(a,b) => a*b < 2^64 (128-bit product in the oracle)", "all 2^128 operand pairs")
    add("safe_add_all_2^128_pairs", {"MODE": "M_ADD"}, "safe_to_add <=> no carry; safe_signaling_add = exact sum or 0", "all 2^128 operand pairs")
    for r, rn in ((1, "any_operands_refusing_allocator"), (2, "products_le_64_granting_allocator")):
        add("alloc_multiple_%s" % rn, {"MODE": "M_ALLOC_MULTIPLE", "REGION": r}, "_cbor_alloc_multiple requests exactly n*s or does not call the allocator", "all (size,count) pairs" if r == 1 else "size*count <= 64", backend="z3" if r == 1 else None)
        add("realloc_multiple_%s" % rn, {"MODE": "M_REALLOC_MULTIPLE", "REGION": r}, "_cbor_realloc_multiple requests exactly n*s or does not call the allocator", "all (size,count) pairs" if r == 1 else "size*count <= 64", backend="z3" if r == 1 else None)
    add("highest_bit_all_values", {"MODE": "M_HIGHEST_BIT"}, "_cbor_highest_bit is the top set bit; loop bound 65 checked by unwinding assertion", "all 2^64 values")
    add("encoded_header_size_all_values", {"MODE": "M_HEADER_SIZE"}, "_cbor_encoded_header_size vs shortest-head rule", "all 2^64 values")
    for k, what in ((1, "byte"), (2, "text")):
        add("serialized_size_%s_string_any_length" % what, {"MODE": "M_SIZE_STRING", "KIND": k}, "definite %s string with ANY size_t length: exact total or 0" % what, "all 2^64 lengths")
    for k, what in ((1, "indefinite array of 3 strings"), (2, "tag(symbolic value) of map {s1:s2}"), (3, "nested definite arrays"), (4, "chunked byte string of 3 chunks")):
        add("serialized_size_composite_kind%d" % k, {"MODE": "M_SIZE_COMPOSITE", "KIND": k}, what + ": exact 128-bit total or 0", "three lengths each any size_t", unwind=8)
    for k, what in ((1, "array"), (2, "map")):
        for r, rn in ((1, "count_gt_8"), (2, "count_1_to_8")):
            us = HB
            add("builder_%s_start_%s" % (what, rn), {"MODE": "M_BUILDER_LEN", "KIND": k, "REGION": r},
                "decoder %s-start callback, declared count symbolic (%s): exact request or creation_failed" % (what, rn), "all counts " + rn, unwind=10, unwindset=us)
            add("new_definite_%s_%s" % (what, rn), {"MODE": "M_NEW_DEFINITE", "KIND": k, "REGION": r},
                "cbor_new_definite_%s(size symbolic, %s): exact backing store or NULL, no leak" % (what, rn), "all sizes " + rn, unwind=10, unwindset=us)
    if tier == "thorough":
        for be in ("cadical", "z3"):
            add("safe_to_multiply_all_2^128_pairs_" + be, {"MODE": "M_MUL"}, "re-decided on " + be, "all 2^128 operand pairs", backend=be, timeout=1800)
            add("safe_add_all_2^128_pairs_" + be, {"MODE": "M_ADD"}, "re-decided on " + be, "all 2^128 operand pairs", backend=be, timeout=1800)
    return o


META = dict(
    level="model_checking", exhaustive=True,
    bounds="all 64-bit operands (one query each, complete); composites of <= 3 children; growth-step lemma is in C12",
    assumptions=["LP64 (size_t = 64 bit)", "recording allocator refuses requests above 4096 bytes so that huge requests are observed but never dereferenced",
                 "fake string items: only the length field is arbitrary; cbor_serialized_size never dereferences string data"],
    outside=["32-bit size_t (CHECK_LENGTH is vacuous on LP64)", "composites with more than 3 children (the per-step signaling add lemma covers any count by induction)"],
    explanation="Guards and their users are checked on the real functions with fully symbolic size_t operands against 128-bit arithmetic in the harness.",
)
