from vf import Obl

ID = "C09"
F = ["cbor_stream_decode", "claim_bytes", "_cbor_load_uint8", "_cbor_load_uint16", "_cbor_load_uint32", "_cbor_load_uint64",
     "_cbor_load_half", "_cbor_load_float", "_cbor_load_double"]

# streams with concrete head bytes (-1 = symbolic data byte): every argument width, strings with payload, nesting markers,
# a truncated tail and a reserved byte in the middle
STREAMS = {
    "ints_all_widths": [0x17, 0x18, -1, 0x39, -1, -1, 0x1a, -1, -1, -1, -1, 0x3b, -1, -1, -1, -1, -1, -1, -1, -1],
    "strings_payload": [0x43, -1, -1, -1, 0x60, 0x78, 0x02, -1, -1, 0x59, 0x00, 0x01, -1, 0x5f, 0x41, -1, 0xff],
    "containers": [0x9f, 0x82, 0x01, 0xa1, 0x05, 0xf5, 0xbf, 0x61, -1, 0xc1, 0xd8, -1, 0xf6, 0xff, 0xff],
    "floats": [0xf9, -1, -1, 0xfa, -1, -1, -1, -1, 0xfb, -1, -1, -1, -1, -1, -1, -1, -1, 0xf7],
    "truncated_tail": [0x01, 0x62, -1, -1, 0x19, -1],
    "truncated_string": [0xf4, 0x45, -1, -1, -1],
    "reserved_in_middle": [0x81, 0x18, -1, 0x1c, 0x00],
    "huge_declared_length": [0x00, 0x7b, 0xff, 0xff, 0xff, 0xff, 0xff, 0xff, 0xff, 0xfa, -1],
    "len8_tags": [0xdb, -1, -1, -1, -1, -1, -1, -1, -1, 0xda, -1, -1, -1, -1, 0x9b, 0, 0, 0, 0, 0, 0, 0, -1],
}


def obligations(tier):
    o = []
    o.append(Obl("two_call_prefix_lemma_all_buffers_le12", "h_frag.c", {"MODE": "M_LEMMA", "MAXN": 12}, unwind=14, timeout=900, funcs=F,
                 desc="every 12-byte buffer x every pair of prefix lengths n1<=n2: FINISHED stable, NEDATA required>n1 and monotone, never ERROR later, read>=required",
                 bounds="buffers <= 12 bytes, all (n1,n2)"))
    o.append(Obl("two_call_prefix_lemma_all_buffers_le12_ndbg", "h_frag.c", {"MODE": "M_LEMMA", "MAXN": 12}, variant="ndbg", unwind=14, timeout=900, funcs=F,
                 desc="same lemma on the NDEBUG build", bounds="buffers <= 12 bytes, all (n1,n2)"))
    for name, sk in STREAMS.items():
        n = len(sk)
        d = {"MODE": "M_SKEL", "SK": ",".join(str(x) for x in sk)}
        smp = {"stream": ["??" if x < 0 else "%02x" % x for x in sk]}
        o.append(Obl("driver_stream_%s_cut_schedules" % name, "h_frag.c", dict(d, CUTS=1), unwind=2 * n + 4, timeout=900, funcs=F,
                     desc="documented client loop on a %d-byte stream (concrete heads, symbolic data bytes): byte-at-a-time, every single cut point, one-shot; vs independent tokeniser" % n,
                     bounds="stream shape fixed, data bytes symbolic, %d concrete fragmentation schedules" % (n + 1), sample=smp))
        if n <= 6 or (tier == "thorough" and n <= 11):
            o.append(Obl("driver_stream_%s_all_fragmentations" % name, "h_frag.c", d, unwind=2 * n + 4, timeout=1800, funcs=F,
                         desc="same stream with EVERY fragmentation (symbolic arrival sizes)", bounds="stream shape fixed, data bytes symbolic, all fragmentations", sample=smp))
    nd = 2 if tier == "quick" else 3
    o.append(Obl("driver_symbolic_stream_le%d_all_fragmentations" % nd, "h_frag.c", {"MODE": "M_DRIVER", "MAXN": nd}, unwind=2 * nd + 4, unwindset=["ref_half_to_single_bits.0:12"],
                 timeout=300 if nd == 2 else 3600, mem_gb=8 if nd == 2 else 20, funcs=F,
                 desc="client loop on EVERY stream of <= %d bytes with every fragmentation" % nd, bounds="streams <= %d bytes" % nd))
    return o


META = dict(
    level="model_checking",
    bounds={"quick": "lemma: all buffers <= 12 bytes and all length pairs; driver: 9 stream shapes (<= 23 bytes, symbolic data) x all fragmentations; all streams <= 2 bytes x all fragmentations",
            "thorough": "same plus all streams <= 3 bytes x all fragmentations"},
    assumptions=["the client follows the documented protocol (advance by read on FINISHED, wait for required on NEDATA)", "decoder statelessness is C08/C17"],
    outside=["fully symbolic streams longer than 3 bytes in the driver loop (no verdict at 5 bytes); covered by the lemma + induction over driver steps, which is a paper argument"],
    explanation="Because cbor_stream_decode is stateless, 'fragmented == one-shot' reduces to a two-call lemma decided for every buffer and every pair of prefix lengths. "
                "By induction over driver steps: a FINISHED step yields the same event and read at any later buffer length; a NEDATA step asks for q > buffered, stays NEDATA "
                "(never ERROR) until q bytes are there, and the eventual FINISHED consumes >= q, so the wait never over-asks. The driver harnesses tie the induction to the real "
                "loop on fixed stream shapes with all fragmentations and on all tiny streams.",
)
