from vf import Obl
import treecheck as tc

ID = "C11"
F = ["cbor_copy", "_cbor_copy_int", "_cbor_copy_float_ctrl", "cbor_build_*", "cbor_new_*", "cbor_array_push", "cbor_map_add", "cbor_*_add_chunk", "cbor_build_tag", "cbor_decref", "cbor_serialize"]


def obligations(tier):
    fam = tc.tree_family(tier)
    o = []
    o += tc.tree_obligations("copy_equal_independent", fam, {"P_COPY": 1}, funcs=F, weight_cap=80, max_cases=10,
                             desc="cbor_copy: same shape/values (walker), same bytes, refcount 1 on every copy node, address sets (nodes + buffers + chunk tables) pairwise disjoint, source contents and refcounts unchanged; release the copy, re-walk the source")
    o += tc.tree_obligations("copy_then_release_source", fam, {"P_COPY": 1, "P_COPY_RELEASE_SRC": 1}, funcs=F, weight_cap=80, max_cases=10,
                             desc="twin run: release the source first, re-walk the copy, release it; nothing leaks")
    big = [s for s in fam if len(s["outcome"].nodes) >= 3][: (14 if tier == "quick" else 80)]
    o += tc.tree_obligations("copy_ptrcheck", big, {"P_COPY": 1, "P_COPY_RELEASE_SRC": 1}, funcs=F, weight_cap=30, max_cases=2, ptrcheck=True, timeout=900,
                             desc="twin run with CBMC use-after-free / double-free checks: any sharing between the trees is a dereference of a deallocated object")
    o += tc.large_obligations("copy_equal_independent_large", {"P_COPY": 1}, "tree", funcs=F, select=lambda s: len(s["outcome"].nodes) <= 60,  desc="large shapes: copy equal, independent (address census), refcount 1, source intact")
    return o


META = dict(
    level="model_checking",
    bounds={"quick": "every tree of the C03 space (accepted skeletons <= 3 heads + 65 construction programs incl. shared sub-items, empty containers, zero-chunk strings, 64-bit integers); pointer-checked twin on 14 trees with >= 3 nodes",
            "thorough": "<= 4 heads (all of S(3), every accepted 4-head sequence, every 4th rejected and every 16th still-open 4-head sequence); pointer-checked twin on 80 trees"},
    assumptions=["allocations succeed (refusal during copy is C06)"],
    outside=["trees with more nodes than the bound", "tags that were never given an item (not obtainable under the ownership rules)"],
    explanation="Independence is decided by pairwise address inequalities over the complete census of node and buffer addresses (concrete shapes => a few dozen pointer inequalities), and by releasing one tree and re-walking the other.",
)
