import itertools
from vf import Obl

ID = "C12"
F = ["cbor_array_push", "cbor_array_set", "cbor_array_replace", "cbor_array_get", "cbor_array_size", "cbor_array_allocated", "cbor_array_handle", "cbor_new_definite_array",
     "cbor_new_indefinite_array", "cbor_map_add", "_cbor_map_add_key", "_cbor_map_add_value", "cbor_bytestring_add_chunk", "cbor_string_add_chunk", "_cbor_realloc_multiple",
     "_cbor_safe_to_multiply", "cbor_decref", "cbor_incref", "cbor_intermediate_decref"]

def alpha(maxidx):
    return [(1, 0)] + [(k, i) for k in (2, 3, 4) for i in range(maxidx + 1)]  # push | set i | replace i | get i


ALPHA = alpha(3)


def seq_table(seqs, length):
    rows = []
    for q, s in enumerate(seqs):
        # pool item per operation: a deterministic bit pattern of the sequence number, so that the same item recurs within a sequence
        # (aliasing: an item pushed twice, or written back into the slot that already holds it) as well as distinct items
        ops = ["{%d,%d,%d}" % (k, i, ((q >> j) & 1) if q % 3 else (q + j) % 3) for j, (k, i) in enumerate(s)]
        ops += ["{0,0,0}"] * (length - len(ops))
        rows.append("{" + ",".join(ops) + "}")
    return "#define NSEQ %d\n#define SEQLEN %d\nstatic const struct op SEQS[NSEQ][SEQLEN] = {\n%s\n};\n" % (len(seqs), length, ",\n".join(rows))


def obligations(tier):
    o = []
    plan = [(1, 3, alpha(2)), (-1, 3, alpha(2))] if tier == "quick" else [(0, 3, alpha(3)), (1, 3, alpha(3)), (2, 3, alpha(3)), (-1, 4, alpha(2))]
    per = 28
    for cap, L, A in plan:
        seqs = list(itertools.product(A, repeat=L))
        cn = "indefinite" if cap < 0 else "definite_cap%d" % cap
        for bi in range(0, len(seqs), per):
            chunk = seqs[bi:bi + per]
            o.append(Obl("array_%s_all_op_sequences_len%d_part%02d" % (cn, L, bi // per), "h_cont.c", {"M_SEQ": 1, "CAP": cap}, gen_src={"seqs.h": seq_table(chunk, L)},
                         unwind=max(len(chunk), 10) + 2, timeout=900, ptrcheck=False, leak=True, funcs=F, cost=len(chunk),
                         desc="every sequence of %d operations from {push, set i, replace i, get i | i in 0..3} on a %s array vs an abstract list: return values, size, size<=allocated, contents, every reference count after every step; out-of-range indices refused" % (L, cn),
                         bounds="%d of %d sequences; element payloads symbolic" % (len(chunk), len(seqs)), sample={"sequence": [list(x) for x in chunk[len(chunk) // 2]]}))
        # pointer-checked: all length-2 sequences, so that an out-of-range access itself (not only its result) is a failed property
        s2 = list(itertools.product(A, repeat=2))
        for bi in range(0, len(s2), 29):
            chunk = s2[bi:bi + 29]
            o.append(Obl("array_%s_all_op_sequences_len2_ptrcheck_part%d" % (cn, bi // 29), "h_cont.c", {"M_SEQ": 1, "CAP": cap}, gen_src={"seqs.h": seq_table(chunk, 2)}, unwind=len(chunk) + 2, timeout=1200,
                         ptrcheck=True, leak=True, funcs=F, cost=5000, desc="all sequences of 2 operations (this part: %d) with CBMC object-bounds checks: an out-of-range index must be refused without touching memory" % len(chunk), bounds="%d of %d sequences" % (len(chunk), len(s2))))
    for cap in (0, 1, 2, 3, -1):
        o.append(Obl("map_%s_add_pairs" % ("indefinite" if cap < 0 else "definite_cap%d" % cap), "h_cont.c", {"M_MAPSEQ": 1, "CAP": cap, "NADD": 6}, unwind=9, timeout=600, leak=True, funcs=F,
                     desc="6 add-pair calls: accepted exactly while a definite map has room (indefinite: always); order, size<=allocated, reference counts; reallocation count <= log bound", bounds="capacities 0..3 / indefinite, 6 insertions"))
    for kind, nm in ((3, "bytestring"), (4, "string")):
        o.append(Obl("chunked_%s_add_chunks" % nm, "h_cont.c", {"M_CHUNKSEQ": 1, "KIND": kind, "NADD": 6}, unwind=9, timeout=600, leak=True, funcs=F,
                     desc="6 add-chunk calls: all accepted, order preserved, count<=capacity, reallocations <= ceil(log2 n)+1", bounds="6 insertions"))
    for kind, nm in ((1, "array_push"), (2, "map_add"), (3, "bytestring_add_chunk"), (4, "string_add_chunk")):
        o.append(Obl("growth_lemma_%s_any_capacity" % nm, "h_cont.c", {"M_GROWLEMMA": 1, "KIND": kind}, unwind=4, unwindset=["_cbor_highest_bit.0:66"], timeout=600, funcs=F,
                     desc="one insertion into a FULL indefinite container whose capacity is ANY size_t, allocator records and refuses: at most one request, for a whole number of elements, strictly more than the old capacity and at least 1.5 x it, or none when the size computation could overflow; "
                          "failure reported; metadata and reference counts unchanged", bounds="all 2^64 capacities"))
    o.append(Obl("growth_count_16_pushes", "h_cont.c", {"M_GROWCOUNT": 1}, unwind=18, timeout=600, leak=True, funcs=F,
                 desc="16 pushes: capacity never shrinks, grows geometrically, at most 8 reallocations", bounds="16 insertions"))
    return o


META = dict(
    level="model_checking", exhaustive=True,
    bounds={"quick": "arrays: all 10^3 = 1000 operation sequences of length 3 over {push, set/replace/get i | i in 0..2} per capacity in {1, indefinite}, all 100 sequences of length 2 with object-bounds checks; maps/chunked strings: 6 insertions per capacity; growth lemma for ANY capacity (2^64) per container kind",
            "thorough": "arrays: all 13^3 = 2197 sequences of length 3 with indices 0..3 for each definite capacity 0,1,2 and all 10^4 sequences of length 4 (indices 0..2) on the indefinite array"},
    assumptions=["operations and indices are concrete per sequence (complete enumeration of the finite family), element payloads symbolic", "growth lemma: recording allocator refuses, so the pointer outcome is concrete; the granted path is covered by the sequences and by C06",
                 "abstract list model in h_cont.c"],
    outside=["sequences longer than 4; thousands of insertions (replaced by the any-capacity growth lemma: capacity at least doubles, so n insertions need at most ceil(log2 n)+1 reallocations)"],
    explanation="Exhaustive enumeration of short operation sequences executed symbolically by CBMC against a list model, plus a one-step growth lemma from an arbitrary capacity that makes the logarithmic-reallocation and never-shrinks clauses hold for histories of any length.",
)
