from vf import Obl
import treecheck as tc

ID = "C03"
F = ["cbor_serialize", "cbor_serialize_uint", "cbor_serialize_negint", "cbor_serialize_bytestring", "cbor_serialize_string", "cbor_serialize_array",
     "cbor_serialize_map", "cbor_serialize_tag", "cbor_serialize_float_ctrl", "cbor_serialized_size", "cbor_encode_*", "cbor_load", "cbor_build_*", "cbor_new_*",
     "cbor_array_push", "cbor_array_set", "cbor_map_add", "cbor_*_add_chunk", "cbor_build_tag", "cbor_tag_set_item"]


def obligations(tier):
    fam = tc.tree_family(tier)
    o = []
    o += tc.tree_obligations("serialize_exact", fam, {"P_SER": 1}, funcs=F,
                             desc="cbor_serialize output == reference RFC 8949 encoder output, byte for byte (stored width for ints/floats, shortest heads for lengths/counts/tags, start..break, canonical NaN); serialized_size == length")
    o += tc.tree_obligations("roundtrip", fam, {"P_SER": 1, "P_RT": 1}, funcs=F,
                             desc="as above, then cbor_load(output) consumes all bytes and yields an equal tree, and serializing that tree gives identical bytes (symbolic int/tag arguments assumed minimal for their width so that output heads are concrete)")
    if tier == "thorough":
        o += tc.tree_obligations("serialize_exact", fam, {"P_SER": 1}, variant="ndbg", funcs=F, desc="NDEBUG build")
    o += tc.large_obligations("serialize_exact_large", {"P_SER": 1}, "tree", funcs=F, desc="large shapes: serialize output == reference encoding byte for byte")
    o += tc.large_obligations("roundtrip_large", {"P_SER": 1, "P_RT": 1}, "tree", funcs=F, select=lambda s: len(s["outcome"].nodes) <= 60,  desc="large shapes: reload consumes all bytes, equal tree, identical re-serialization")
    return o


META = dict(
    level="model_checking",
    bounds={"quick": "every accepted skeleton of <= 3 heads + variety + special shapes (decoder-obtained trees) and 63 construction programs (every builder, all widths with fully symbolic values, strings 0..3 bytes, "
                     "partially filled definite containers, zero/multi-chunk strings, nesting <= 3, shared children); all scalar values and payload bytes symbolic",
            "thorough": "<= 4 heads (all of S(3), every accepted 4-head sequence, every 4th rejected and every 16th still-open 4-head sequence); DEBUG and NDEBUG"},
    assumptions=["simple values restricted to 20..23; half items hold half-representable values (built from a symbolic half pattern)", "round-trip obligations additionally assume each symbolic integer/tag argument is minimal for its width (the non-minimal cases are covered by the serialize-exact obligations, without reload)",
                 "functional obligation: pointer checks off (C01 / C07 decide memory safety)"],
    outside=["trees with more nodes than the bound"],
    explanation="Reference encoder (tree.h) is written from RFC 8949 section 3 and works from the expected-tree table, not from libcbor's functions.",
)
