from vf import Obl
import treecheck as tc

ID = "C05"
F = ["cbor_load", "cbor_stream_decode", "_cbor_builder_append", "cbor_builder_*_callback", "_cbor_stack_push", "_cbor_stack_pop", "cbor_decref"]


def obligations(tier):
    fam = tc.family(tier)
    o = []
    if tier == "thorough":
        o += tc.batch_obligations("load_errors_q", tc.family("quick"), "h_load.c", {"P_ERR": 1}, variant="ndbg", truncations=True, weight_cap=120, max_cases=12, funcs=F, ptrcheck=False,
                                  desc="NDEBUG build on the quick family")
    for v in ("dbg",):
        o += tc.batch_obligations("load_errors", fam, "h_load.c", {"P_ERR": 1}, variant=v, truncations=True, weight_cap=120, max_cases=12, funcs=F, ptrcheck=False,
                                  desc="cbor_load on the skeleton and on every truncation, result struct pre-filled with nondeterministic values: NULL, nothing allocated, "
                                       "(code, position) in the reference decoder's allowed set, read consistent")
    import skeleton as sk
    o += tc.batch_obligations("load_errors_huge_declared_sizes", sk.huge_family(), "h_load.c", {"P_ERR": 1, "P_RECORD": 1}, variant="dbg", truncations=True, weight_cap=60, max_cases=4, funcs=F, ptrcheck=False,
                              desc="heads declaring 2^32 .. 2^64-1 elements or bytes, every truncation, allocator refusing requests above 4 KiB: MEMERROR just past the head whose backing store is refused, "
                                   "NOTENOUGHDATA for the (viable) prefixes and for oversize strings; nothing allocated")
    return o


META = dict(
    level="model_checking",
    bounds={"quick": "all live head sequences <= 3 heads + leaf variety + special shapes (incl. openers inside chunked strings), every truncation offset of each; data bytes symbolic",
            "thorough": "<= 4 heads (all of S(3), every accepted 4-head sequence, every 4th rejected and every 16th still-open 4-head sequence), DEBUG and NDEBUG"},
    assumptions=["allocations succeed (MEMERROR by refusal is C06; by nesting is C19)", "expected (code, position) sets come from lib/skeleton.py's reference decoder",
                 "latitude: a non-chunk item opened inside a chunked string admits eager SYNTAXERROR just past its head or whatever the continued parse reports (DESIGN C05)",
                 "functional obligation: pointer checks off here, decided in C01 on the same inputs"],
    outside=["inputs with more heads than the bound"],
    explanation="Same skeleton runs as C02 but on rejected inputs and truncations; the result struct starts out arbitrary so an unwritten field fails for some value.",
)
