import os
import re
import subprocess
import tempfile
import shutil
from vf import Obl
import vf
import treecheck as tc
import skeleton as sk
from checks.encoders import ENCODERS, enc_defines

ID = "C13"
F = ["cbor_set_allocs", "_cbor_malloc/_cbor_realloc/_cbor_free call sites in every unit", "cbor_load", "cbor_copy", "cbor_decref", "cbor_serialize_alloc", "cbor_serialize", "cbor_serialized_size",
     "cbor_stream_decode", "cbor_encode_*", "_cbor_alloc_multiple", "_cbor_realloc_multiple", "_cbor_stack_push", "_cbor_stack_pop"]
LIBC_HEAP = {"malloc", "calloc", "realloc", "free", "strdup", "strndup", "aligned_alloc", "posix_memalign", "reallocarray", "valloc", "memalign", "asprintf", "vasprintf", "getline", "getdelim", "open_memstream", "fmemopen"}


def obligations(tier):
    o = []
    trees = sk.construction_family(tier) + [s for s in tc.family(tier) if s["outcome"].ok and (not s["in_S"] or tier == "thorough")]
    if tier == "quick":
        trees = [s for s in trees if len(s["outcome"].nodes) <= 6]
    else:
        trees = [s for i, s in enumerate(trees) if not (s.get("in_S") and s["nheads"] == 4) or i % 2 == 0]
    o += tc.tree_obligations("tagging_allocator_trees", trees, {"P_ROUTE": 1, "TAGGING_ALLOC": 1}, funcs=F, weight_cap=24, max_cases=3, ptrcheck=True, timeout=900,
                             desc="tagging allocator (hidden 16-byte header with magic + live flag) installed via cbor_set_allocs: build or decode the tree, walk, size + serialize (no requests allowed), copy, serialize_alloc, release everything: "
                                  "every block released or resized carries a live tag, none is released twice, none reaches libc free/realloc directly (interior pointer => CBMC free/realloc precondition fails), nothing tagged stays live")
    fam = [s for s in tc.family(tier) if not s["outcome"].ok and not s["in_S"]][: (30 if tier == "quick" else 400)]
    o += tc.batch_obligations("tagging_allocator_rejected_loads", fam, "h_load.c", {"P_ERR": 1, "TAGGING_ALLOC": 1}, truncations=True, weight_cap=30, max_cases=4, funcs=F, ptrcheck=True, timeout=900,
                              desc="rejected and truncated inputs under the tagging allocator: the error clean-up (partial tree, decoder stack frames) releases every block through the installed free, once")
    for e in ENCODERS[:: (3 if tier == "quick" else 1)]:
        o.append(Obl("encoder_allocates_nothing_%s" % e[0], "h_enc.c", enc_defines(e), variant="ndbg", unwind=12, timeout=300, funcs=F, cost=5,
                     desc="cbor_encode_%s and cbor_stream_decode with an allocator triple that asserts when called: no memory is requested or released" % e[0], bounds="value domain %s" % e[6]))
    o.append(Obl("stream_decode_allocates_nothing", "h_stream.c", {"MAXN": 12}, unwind=14, timeout=900, funcs=F, cost=20,
                 desc="cbor_stream_decode on every buffer <= 12 bytes with an allocator triple that asserts when called", bounds="all buffers <= 12 bytes"))
    return o


def post(tier, results):
    """Coverage guard, regenerated from the current sources (not a deciding step for paths the harnesses reach): no library unit other than
    allocators.c (home of the default triple) may reference a C-library heap function."""
    d = tempfile.mkdtemp(prefix="c13census_", dir=vf.WORK if os.path.isdir(vf.WORK) else None)
    bad, seen = [], {}
    try:
        cfg = os.path.join(d, "cfg")
        vf.gen_config(cfg)
        for f in vf.src_files():
            obj = os.path.join(d, os.path.basename(f) + ".o")
            r = subprocess.run(["gcc", "-std=gnu99", "-O0", "-w", "-DEIGHT_BYTE_SIZE_T", "-I" + vf.SRC, "-I" + cfg, "-c", f, "-o", obj], stdout=subprocess.PIPE, stderr=subprocess.STDOUT)
            if r.returncode != 0:
                return {"inconclusive": [{"obligation": "libc_heap_reference_census", "status": "ERROR", "msg": r.stdout.decode()[-400:]}]}
            und = subprocess.run(["nm", "-u", obj], stdout=subprocess.PIPE).stdout.decode().split()
            refs = sorted(set(x for x in und if x in LIBC_HEAP))
            seen[os.path.relpath(f, vf.SRC)] = refs
            if os.path.basename(f) == "allocators.c":
                # the unit that defines the default triple may reference malloc/realloc/free in any way (initialisers today, wrappers
                # tomorrow); whether it *routes* correctly is decided by the tagging-allocator obligations, not by this census
                if set(refs) - {"malloc", "realloc", "free"}:
                    bad.append((f, refs))
            elif refs:
                bad.append((f, refs))
    finally:
        shutil.rmtree(d, ignore_errors=True)
    out = {"libc_heap_reference_census": seen}
    if bad:
        # a direct reference on a path the skeleton harnesses do not reach: reported as a violation with the census as its own replay artefact
        os.makedirs(vf.REPLAYS, exist_ok=True)
        path = os.path.join(vf.REPLAYS, "C13-census.json")
        import json
        json.dump({"property_id": "C13", "census_violations": [[os.path.relpath(f, vf.SRC), r] for f, r in bad], "how": "gcc -c each unit; nm -u lists undefined references to C-library heap functions"}, open(path, "w"), indent=1)
        out["violations"] = [{"obligation": "libc_heap_reference_census", "description": "library unit references a C-library heap function directly: %s" % bad, "replay": path, "native": "nm -u on the compiled unit", "location": {}}]
    return out


META = dict(
    level="model_checking",
    bounds={"quick": "tagging allocator over 65 construction programs + variety/special decoder trees of <= 6 nodes (build/decode, walk, size, serialize, copy, serialize_alloc, release) and 30 rejected/truncated inputs; every 3rd encoder + stream decoder (all buffers <= 12 bytes) under an asserting allocator; census of libc heap references over all 20 units",
            "thorough": "all accepted skeletons <= 4 heads (all of S(3), every accepted 4-head sequence, every 4th rejected and every 16th still-open 4-head sequence), 400 rejected inputs, all 27 encoders"},
    assumptions=["allocator installed once before any item exists (precondition of the property)", "the harness's own scratch buffers use libc directly and are not routed (they are the client's memory)",
                 "census (gcc -c + nm -u per unit) is a coverage guard for call sites the harnesses do not reach; it is regenerated on every run"],
    outside=["allocator triples whose functions are inconsistent with each other"],
    explanation="The hidden-header allocator makes any bypass a failed CBMC property: a libc-obtained block has no magic in front of it (out-of-bounds read / magic mismatch), a tagged block handed to libc free/realloc is an interior pointer, a double release finds live == 0.",
)
