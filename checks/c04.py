import itertools
from vf import Obl
import treecheck as tc
import skeleton as sk
from checks.c12 import seq_table, alpha

ID = "C04"
F = ["cbor_incref", "cbor_decref", "cbor_intermediate_decref", "cbor_move", "cbor_refcount", "cbor_array_push", "cbor_array_set", "cbor_array_replace", "cbor_array_get",
     "cbor_map_add", "cbor_bytestring_add_chunk", "cbor_string_add_chunk", "cbor_tag_set_item", "cbor_tag_item", "cbor_build_tag", "cbor_copy", "cbor_load", "cbor_new_*", "cbor_build_*"]
OPS = [("OP_INCREF", None), ("OP_DECREF_LEAF", None), ("OP_INTERMEDIATE_DECREF", None), ("OP_MOVE", None), ("OP_DECREF_ARRAY_SHARED", None), ("OP_DECREF_MAP", None),
       ("OP_DECREF_TAG", None), ("OP_DECREF_CHUNKED", 0), ("OP_DECREF_CHUNKED", 1), ("OP_PUSH", 0), ("OP_PUSH", 1), ("OP_PUSH_FULL", None), ("OP_REPLACE", 0), ("OP_REPLACE", 1),
       ("OP_SET_APPEND", 0), ("OP_SET_APPEND", 1), ("OP_GET", None), ("OP_MAP_ADD", 0), ("OP_MAP_ADD", 1), ("OP_ADD_CHUNK", 0), ("OP_ADD_CHUNK", 1), ("OP_TAG_SET_ITEM", None),
       ("OP_TAG_ITEM", None), ("OP_BUILD_TAG", None), ("OP_COPY", None), ("OP_DECREF_NESTED", None),
       ("OP_REPLACE_SAME", 0), ("OP_REPLACE_SAME", 1), ("OP_REPLACE_SAME", 2), ("OP_PUSH_AGAIN", None), ("OP_MAP_ADD_SAME", None)]
US = ["cbor_decref.0:3", "cbor_decref.1:3", "cbor_decref.2:4", "cbor_decref.3:3", "_cbor_highest_bit.0:66"]


def obligations(tier):
    o = []
    for op, kind in OPS:
        d = {"OP": op}
        if kind is not None:
            d["KIND"] = kind
        o.append(Obl("one_step_%s%s" % (op[3:].lower(), "" if kind is None else "_kind%d" % kind), "h_rc.c", d, unwind=4, unwindset=US, timeout=600, funcs=F, cost=10,
                     desc="one call of the operation from ARBITRARY reference counts (count = owners + symbolic surplus): each count changes by the documented delta, an item is released iff its count reached 0, exactly once",
                     bounds="all surplus values 0..2^64-17 per operand; operand shapes: leaf, array with a child held twice, map pair, tag, chunked string, nested tag+array", sample=d))
    for kind, nm in ((1, "indefinite_array"), (2, "indefinite_map"), (3, "chunked_bytestring"), (4, "chunked_string"), (5, "definite_array"), (6, "definite_map")):
        for pre in (1, 2, 3, 4, 5):
            o.append(Obl("one_step_append_%s_after_%d" % (nm, pre), "h_rc.c", {"OP": "OP_APPEND_NTH", "KIND": kind, "PRE": pre}, unwind=8, unwindset=["cbor_decref.0:8", "cbor_decref.1:8", "cbor_decref.2:8", "cbor_decref.3:8"], timeout=600, funcs=F, cost=10,
                         desc="append to a %s that already holds %d entries (growth steps 1,2,4,8 and the free-slot positions in between), appended item's count = owners + symbolic surplus: exactly one reference per stored position; release gives them back" % (nm, pre),
                         bounds="all surplus values; prior sizes 1..5", sample={"kind": nm, "pre": pre}))
    # (b) enumerated short histories with a shadow ownership model
    A = alpha(2)
    L = 3
    seqs = list(itertools.product(A, repeat=L))
    step = 4 if tier == "quick" else 1
    for cap in (2, -1):
        sel = seqs[(0 if cap == 2 else 1)::step]
        for bi in range(0, len(sel), 28):
            chunk = sel[bi:bi + 28]
            o.append(Obl("history_array_%s_len3_part%02d" % ("indefinite" if cap < 0 else "cap2", bi // 28), "h_cont.c", {"M_SEQ": 1, "CAP": cap}, gen_src={"seqs.h": seq_table(chunk, L)},
                         unwind=max(len(chunk), 10) + 2, timeout=900, ptrcheck=False, leak=True, funcs=F, cost=len(chunk),
                         desc="histories of 3 operations (push/set/replace/get) over a pool of 3 items with a shadow ownership model: every reference count after every step, then all client references dropped: nothing remains allocated",
                         bounds="%d histories%s" % (len(chunk), "" if step == 1 else " (every 4th of the 1000; C12 runs them all)")))
    # histories through whole trees with CBMC double-free / use-after-free checks: build (incl. shared sub-items) or decode, walk, release
    trees = sk.construction_family(tier)
    if tier == "thorough":
        trees += [s for s in tc.family(tier) if s["outcome"].ok and not s["in_S"]]
    o += tc.tree_obligations("tree_build_release_ptrcheck", trees, {}, funcs=F, weight_cap=24, max_cases=3, ptrcheck=True, timeout=900,
                             desc="construction program (every builder, shared sub-items, partial containers) -> walk -> last reference dropped: reference counts as the rules say, every block released exactly once (double-free / use-after-free checks), nothing left")
    return o


META = dict(
    level="model_checking",
    bounds={"quick": "26 one-step obligations with fully symbolic surplus counts; 500 enumerated 3-operation array histories (the other 1500 of the two capacities run in C12); 65 construction programs released under double-free/use-after-free checks",
            "thorough": "all 2000 array histories; construction programs + variety/special decoder trees"},
    assumptions=["clients follow the ownership rules (the harness never over-releases); containers acyclic", "induction over histories from the one-step obligations is a paper argument (invariant: count = number of owners)",
                 "cbor_tag_set_item on an occupied tag follows its documented non-releasing behaviour and is not exercised"],
    outside=["long random histories (replaced by the one-step lemmas)", "serialize/describe (no ownership effect: C18)"],
    explanation="Reference counts are symbolic size_t values, so one query covers every possible number of other owners; the short histories and tree releases tie the lemmas to real call sequences.",
)
