from vf import Obl
import treecheck as tc
from checks.encoders import ENCODERS, enc_defines

ID = "C07"
F = ["cbor_serialize", "cbor_serialize_*", "cbor_serialized_size", "cbor_serialize_alloc", "cbor_encode_*", "_cbor_encode_uint*", "_cbor_encode_byte", "_cbor_safe_signaling_add"]


def obligations(tier):
    o = []
    # (a) every low-level encoder: value symbolic over its type, n symbolic 0..10, exact-size pre-filled block, all memory checks on
    for e in ENCODERS:
        o.append(Obl("encoder_bounds_%s" % e[0], "h_enc.c", enc_defines(e), variant="ndbg", unwind=12, timeout=300, funcs=F,
                     desc="cbor_encode_%s with value over its whole domain and n in 0..10: returns bytes written (all inside the exact-size block) or 0 with the block untouched" % e[0],
                     bounds="value domain %s, n in 0..10" % e[6], sample={"encoder": e[0]}))
    # (b) trees: n symbolic in 0..size+2
    fam = tc.tree_family(tier)
    o += tc.tree_obligations("tree_size_serialize_alloc", fam, {"P_SIZE": 1}, funcs=F, weight_cap=80, max_cases=10,
                             desc="for every n in 0..size+2 (symbolic): cbor_serialize returns size iff n >= size else 0; bytes outside the first n (and past the encoding on success) keep their arbitrary pre-filled values; cbor_serialize_alloc requests exactly size bytes once and holds the same bytes")
    # memory-safety variant with pointer checks on the special/larger trees: a write at >= n is an object-bounds violation
    big = [s for s in fam if len(s["outcome"].nodes) >= 4][: (12 if tier == "quick" else 60)]
    o += tc.tree_obligations("tree_serialize_bounds_ptrcheck", big, {"P_SIZE": 1, "P_SIZE_EXACT": 1}, funcs=F, weight_cap=30, max_cases=2, ptrcheck=True, timeout=900,
                             desc="every n in 0..size+2 enumerated concretely, each in an exactly-sized heap block with CBMC pointer/bounds checks on: any write outside the first n bytes is a failed property, also on the failing (partial-write) paths")
    o += tc.large_obligations("tree_size_serialize_alloc_large", {"P_SIZE": 1}, "tree", funcs=F, select=lambda s: len(s["outcome"].nodes) <= 60,  desc="large shapes: every n in 0..size+2 (symbolic)")
    return o


META = dict(
    level="model_checking",
    bounds={"quick": "(a) 27 encoders x full value domain x n in 0..10; (b) every tree of the C03 space (accepted skeletons <= 3 heads + 65 construction programs) x every n in 0..size+2 (symbolic); pointer-checked variant on 12 trees with >= 4 nodes",
            "thorough": "<= 4 heads (all of S(3), every accepted 4-head sequence, every 4th rejected and every 16th still-open 4-head sequence); pointer-checked variant on 60 trees"},
    assumptions=["recording allocator grants the request of cbor_serialize_alloc (refusal is C06)", "partial writes inside the first n bytes are allowed for composites on failure, as the statement says",
                 "pointer checks are on for (a) and for the *_ptrcheck obligations; the other tree obligations are functional (bounds of the exact-size block are checked there by snapshot comparison of [size,n))"],
    outside=["items whose encoding does not fit in memory (size 0 case is C20)"],
    explanation="n is a solver variable, so every buffer size in range is covered by one query per batch of trees.",
)
