from vf import Obl
import vf
import treecheck as tc
import skeleton as sk

ID = "C19"
F = ["cbor_load", "_cbor_stack_push", "_cbor_stack_pop", "cbor_builder_*_start_callback", "cbor_builder_tag_callback", "_cbor_builder_append", "cbor_decref", "cbor_copy", "cbor_serialize",
     "cbor_serialized_size", "cbor_describe", "_cbor_nested_describe"]
REC = ["cbor_decref", "cbor_copy", "cbor_serialize", "cbor_serialized_size", "_cbor_nested_describe", "_cbor_builder_append", "cbor_serialize_bytestring", "cbor_serialize_string", "tree_check"]


def obligations(tier):
    o = []
    for L in ((1, 2, 3) if tier == "quick" else (1, 2, 3, 8)):
        fam = sk.spine_family(L)
        if L == 8:
            fam = [s for s in fam if s["depth"] in (7, 8, 9)][:40]
        for bi, b in enumerate(tc.batches(fam, 30, 5, True)):
            maxn = max(len(s["bytes"]) for s in b)
            o.append(Obl("limit%d_spines_batch%02d" % (L, bi), "h_load.c", {"P_TREE": 1, "P_ERR": 1, "P_SAFETY": 1}, variant="stack%d" % L, gen_src={"cases.h": sk.c_cases(b, L, True)},
                         unwind=maxn + 6, unwindset=["%s:%d" % (f, L + 3) for f in REC], timeout=900, leak=True, ptrcheck=False, funcs=F, cost=maxn * len(b),
                         desc="library built with CBOR_MAX_STACK_SIZE=%d: nesting spines from every container kind at depths L-1, L, L+1, 2L+1 (and every head-boundary truncation): accepted up to L with the expected tree, "
                              "MEMERROR just past the head opening level L+1; describe/size/serialize/copy/release with recursion bounded by L+3 frames (unwinding assertions)" % L,
                         bounds="%d spines, nesting limit %d" % (len(b), L), sample={"spines": [s["name"] for s in b[:3]]}))
        # pointer-checked: the over-limit spines (clean-up of a deep partial tree) on a few members
        deep = [s for s in fam if not s["outcome"].ok][:4]
        for bi, b in enumerate(tc.batches(deep, 16, 2, True)):
            maxn = max(len(s["bytes"]) for s in b)
            o.append(Obl("limit%d_overlimit_ptrcheck_batch%02d" % (L, bi), "h_load.c", {"P_ERR": 1, "P_SAFETY": 1}, variant="stack%d" % L, gen_src={"cases.h": sk.c_cases(b, L, True)},
                         unwind=maxn + 6, timeout=900, leak=True, ptrcheck=True, funcs=F, cost=5000,
                         desc="over-limit spines with CBMC memory-safety checks: the rejected decode releases the deep partial tree and every stack frame exactly once", bounds="%d spines" % len(b)))
    o.append(Obl("default_limit_push_pop_any_size", "h_stack.c", {"MODE": "M_PUSHPOP"}, unwind=4, timeout=300, funcs=F,
                 desc="default configuration: _cbor_stack_push/_cbor_stack_pop from a stack whose size is ANY size_t: push succeeds iff size < CBOR_MAX_STACK_SIZE, size' = size+1, pop gives size-1", bounds="all 2^64 stack sizes"))
    for op, nm in ((1, "tag"), (2, "byte_string_start"), (3, "string_start"), (4, "indef_array_start"), (5, "indef_map_start"), (6, "array_start_2"), (7, "map_start_1"), (8, "array_start_0"), (9, "map_start_0")):
        o.append(Obl("default_limit_opener_%s_any_depth" % nm, "h_stack.c", {"MODE": "M_OPENER", "OPENER": op}, unwind=6, unwindset=["_cbor_highest_bit.0:66"], timeout=300, funcs=F,
                     desc="default configuration, stack depth symbolic in 1..CBOR_MAX_STACK_SIZE: the %s callback pushes exactly one frame below the limit, reports creation_failed at the limit (nothing leaked); empty definite containers push nothing" % nm,
                     bounds="all depths 1..limit"))
    return o


META = dict(
    level="model_checking",
    bounds={"quick": "builds with CBOR_MAX_STACK_SIZE in {1,2,3}: spines of every container kind (tag, definite/indefinite array, map in key and value position, chunked string innermost) at depths L-1, L, L+1, 2L+1 with every head-boundary truncation; default limit (2048): push/pop and all nine opening callbacks from ANY stack depth",
            "thorough": "additionally L = 8"},
    assumptions=["expected acceptance / MEMERROR position come from the reference decoder with the same limit", "the default limit is covered inductively (one step from an arbitrary depth), not end-to-end: 2049 nested containers give no verdict in 1200 s",
                 "'native stack proportional to L' is decided as: every recursive function needs at most L+3 frames (recursion unwinding assertions); bytes per frame are compiler-dependent and outside the claim"],
    outside=["L in {64} end-to-end", "native stack byte counts"],
    explanation="Small-limit builds are checked end-to-end against the reference; the configured default is checked by a push/pop lemma with symbolic depth plus one lemma per opening callback.",
)
