from vf import Obl
import treecheck as tc

ID = "C01"
F = ["cbor_load", "cbor_stream_decode", "_cbor_builder_append", "cbor_builder_*_callback (all 24)", "_cbor_stack_push", "_cbor_stack_pop", "cbor_decref",
     "cbor_describe", "_cbor_nested_describe", "cbor_serialized_size", "cbor_serialize", "cbor_serialize_*", "cbor_copy", "cbor_encode_*"]


def obligations(tier):
    o = []
    maxn = 12 if tier == "quick" else 16
    o.append(Obl("stream_decode_memory_safety_all_buffers_le%d" % maxn, "h_stream.c", {"MAXN": maxn}, variant="dbg", unwind=maxn + 2, timeout=900,
                 funcs=["cbor_stream_decode"], desc="Layer 1: cbor_stream_decode on every exact-size buffer of <= %d symbolic bytes with all CBMC memory/UB checks" % maxn,
                 bounds="all buffers <= %d bytes" % maxn))
    fam = [s for s in tc.family(tier) if not (s["in_S"] and s["nheads"] == s["k"] and s["status"] == "open")]
    if tier == "thorough":
        # pointer-checked runs cost 3-5 s per case: of the 4-head sequences keep the accepted ones (the post-load pipeline only runs on those) and every 4th rejected one
        fam = [s for i, s in enumerate(fam) if not (s["in_S"] and s["nheads"] == 4) or s["status"] == "complete" or i % 4 == 0]
    o += tc.batch_obligations("load_safety", fam, "h_load.c", {"P_SAFETY": 1}, variant="dbg", truncations=True, weight_cap=36, max_cases=5, funcs=F, timeout=900,
                              desc="cbor_load on the skeleton and on EVERY truncation of it (exact-size heap block, freed right after the call); on success describe/size/serialize(symbolic n)/copy/release; "
                                   "CBMC object-bounds, NULL, use-after-free, double-free, leak, signed-overflow, shift checks + live CBOR_ASSERT; unwinding assertions = termination")
    import skeleton as sk
    o += tc.batch_obligations("load_safety_huge_declared_sizes", [dict(x, truncs=[len(x["bytes"]) // 2, len(x["bytes"])]) for x in sk.huge_family()], "h_load.c", {"P_SAFETY": 1, "P_RECORD": 1}, variant="dbg", truncations=True, weight_cap=8, max_cases=1, funcs=F, timeout=900, paths_first=True,
                              unwindset=["%s:3" % f for f in tc.REC_FUNCS] + ["%s:2" % l for l in tc.REC_LOOPS] + ["_cbor_highest_bit.0:66"],
                              desc="heads declaring 2^32 .. 2^64-1 elements / bytes (8-byte count forms, at top level, tagged, nested, as a chunk) under an allocator that refuses requests above 4 KiB: "
                                   "the decoder fails cleanly; an under-allocated table written past its end is an object-bounds violation")
    o += tc.large_obligations("load_safety_large", {"P_SAFETY": 1}, "load", ptrcheck=True, funcs=F, timeout=1200, select=lambda s: len(s["outcome"].nodes) <= 26, desc="large shapes with all memory-safety checks: load (+ a handful of truncations), describe, size, serialize, copy, release")
    return o


META = dict(
    level="model_checking",
    bounds={"quick": "Layer 1: every buffer <= 12 bytes through cbor_stream_decode. Layer 2: all live head sequences <= 3 heads (17-symbol alphabet) + leaf variety + special shapes, each with every truncation offset; data bytes symbolic; serialize buffer size symbolic 0..size+1",
            "thorough": "Layer 1: <= 16 bytes. Layer 2: <= 4 heads (all of S(3), every accepted 4-head sequence, every 4th rejected and every 16th still-open 4-head sequence)"},
    tier_note="the pointer-checked safety family drops the still-open sequences of maximal length (they are truncated inputs whose cleanup paths are also reached by the mid-token truncations of the kept members and by the open sequences one head shorter); C05 runs them all",
    assumptions=["allocations succeed (refusal is C06)", "stdio stubs for cbor_describe (formatting not modelled; argument evaluation is)", "ldexp model", "DEBUG build so CBOR_ASSERT is live"],
    outside=["byte-exhaustive symbolic input to cbor_load (no verdict even at 1 byte, DESIGN 1.1): replaced by the Layer 1 lemma + skeleton enumeration", "inputs with more heads than the bound",
             "pointer-arithmetic-overflow-only findings are listed as unconfirmed, never as violations"],
    explanation="Safety oracle only: CBMC's built-in memory-safety and undefined-behaviour properties, CBOR_ASSERT, leak freedom, unwinding assertions (termination), and the two-outcome clause.",
)
