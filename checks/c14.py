from vf import Obl
import treecheck as tc

ID = "C14"
F = ["cbor_load", "cbor_stream_decode", "_cbor_builder_append", "cbor_builder_*_callback"]


def obligations(tier):
    fam = [s for s in tc.family(tier) if s["outcome"].ok]
    o = []
    for k in ((1, 3) if tier == "quick" else (1, 2, 3, 4)):
        o += tc.batch_obligations("suffix%d" % k, fam, "h_load.c", {"P_SUFFIX": k}, variant="dbg", truncations=False, weight_cap=160, max_cases=24, funcs=F, ptrcheck=False,
                                  desc="accepted item x followed by %d fully symbolic bytes y: same read, same tree as x alone" % k)
    o += tc.batch_obligations("sequence_xyx", fam, "h_load.c", {"P_SEQ": 1}, variant="dbg", truncations=False, weight_cap=90, max_cases=12, funcs=F, ptrcheck=False, extra_unwind=6,
                              desc="concatenation x||y||x of accepted items (pairs of consecutive family members) split by the documented loop offset += read into exactly those items")
    o += tc.large_obligations("suffix2_large", {"P_SUFFIX": 2}, "load", funcs=F, select=lambda s: len(s["outcome"].nodes) <= 60,  desc="large shapes followed by 2 symbolic bytes")
    return o


META = dict(
    level="model_checking",
    bounds={"quick": "every accepted skeleton (<= 3 heads + variety + special shapes) followed by 1 and by 3 fully symbolic suffix bytes (garbage, breaks, reserved bytes, further items are all inside that)",
            "thorough": "<= 4 heads (all of S(3), every accepted 4-head sequence, every 4th rejected and every 16th still-open 4-head sequence), suffix lengths 1..4"},
    assumptions=["C08 clause 'FINISHED does not depend on bytes beyond read' (all buffers) backs longer suffixes", "functional obligation: pointer checks off (C01 decides them)"],
    outside=["suffixes longer than 4 bytes other than through the C08 lemma"],
    explanation="x||y with y symbolic in an exact-size block; read and tree must equal those the reference computes for x alone. The sequence-splitting clause follows by induction on offset += read.",
)
