from vf import Obl
from checks.encoders import ENCODERS, enc_defines

ID = "C10"


def obligations(tier):
    obls = []
    for e in ENCODERS:
        name, dom = e[0], e[6]
        obls.append(Obl("enc_dec_inverse_%s" % name, "h_enc.c", enc_defines(e), variant="dbg", unwind=12, timeout=300,
                        funcs=["cbor_encode_" + name, "_cbor_encode_uint", "_cbor_encode_uint8", "_cbor_encode_uint16", "_cbor_encode_uint32",
                               "_cbor_encode_uint64", "_cbor_encode_byte", "cbor_stream_decode"],
                        desc="cbor_encode_%s: value symbolic over its whole domain (%s values), buffer size 0..10; bytes == RFC 8949 head; "
                             "cbor_stream_decode on the bytes fires the matching callback with the identical value and read == written" % (name, dom),
                        bounds="value domain complete (%s), n in 0..10" % dom, sample={"encoder": name, "domain": dom}))
        if tier == "thorough" and dom in ("2^64", "2^32"):
            # second back end: CaDiCaL (z3 does not finish the shortest-form ladders of array_start/tag within 900 s)
            obls.append(Obl("enc_dec_inverse_%s_cadical" % name, "h_enc.c", enc_defines(e), variant="ndbg", unwind=12, timeout=900, backend="cadical",
                            desc="same query, NDEBUG build, CaDiCaL back end", bounds="value domain complete (%s)" % dom))
    return obls


META = dict(
    level="model_checking",
    exhaustive=True,
    bounds="every value of each encoder's argument type (no sampling: 2^8 .. 2^64 values per query); buffer size 0..10; half encoder restricted to the 2^16 half-representable floats as the property states",
    assumptions=["LP64 little-endian", "ldexp model", "reference head encoder in h_enc.c written from RFC 8949 section 3"],
    outside=["cbor_encode_half on non-half-representable floats (totality only, see C15)"],
    explanation="One CBMC query per cbor_encode_* function; the argument is a nondeterministic value of the full type, so all width boundaries "
                "(23/24, 0xFF/0x100, 0xFFFF/0x10000, 2^32-1/2^32, 2^64-1) are inside one formula. Bytes are compared with a reference head and then "
                "decoded by the real cbor_stream_decode with a recording callback table.",
)
