"""The table of low-level encoders shared by C10 and C07(a)."""
# name, CALL, FORM, MT, SLOT, extra defines, domain description
ENCODERS = [
    ("uint8", "cbor_encode_uint8((uint8_t)v,buf,n)", "F_IMM8", 0, "S_UINT8", {}, "2^8"),
    ("uint16", "cbor_encode_uint16((uint16_t)v,buf,n)", "F_FIX16", 0, "S_UINT16", {}, "2^16"),
    ("uint32", "cbor_encode_uint32((uint32_t)v,buf,n)", "F_FIX32", 0, "S_UINT32", {}, "2^32"),
    ("uint64", "cbor_encode_uint64(v,buf,n)", "F_FIX64", 0, "S_UINT64", {}, "2^64"),
    ("uint", "cbor_encode_uint(v,buf,n)", "F_SHORTEST", 0, "S_UINT8", {}, "2^64"),
    ("negint8", "cbor_encode_negint8((uint8_t)v,buf,n)", "F_IMM8", 1, "S_NEGINT8", {}, "2^8"),
    ("negint16", "cbor_encode_negint16((uint16_t)v,buf,n)", "F_FIX16", 1, "S_NEGINT16", {}, "2^16"),
    ("negint32", "cbor_encode_negint32((uint32_t)v,buf,n)", "F_FIX32", 1, "S_NEGINT32", {}, "2^32"),
    ("negint64", "cbor_encode_negint64(v,buf,n)", "F_FIX64", 1, "S_NEGINT64", {}, "2^64"),
    ("negint", "cbor_encode_negint(v,buf,n)", "F_SHORTEST", 1, "S_NEGINT8", {}, "2^64"),
    ("bytestring_start", "cbor_encode_bytestring_start((size_t)v,buf,n)", "F_SHORTEST", 2, "S_BS", {}, "2^64"),
    ("string_start", "cbor_encode_string_start((size_t)v,buf,n)", "F_SHORTEST", 3, "S_STR", {}, "2^64"),
    ("array_start", "cbor_encode_array_start((size_t)v,buf,n)", "F_SHORTEST", 4, "S_ARR", {}, "2^64"),
    ("map_start", "cbor_encode_map_start((size_t)v,buf,n)", "F_SHORTEST", 5, "S_MAP", {}, "2^64"),
    ("tag", "cbor_encode_tag(v,buf,n)", "F_SHORTEST", 6, "S_TAG", {}, "2^64"),
    ("indef_bytestring_start", "cbor_encode_indef_bytestring_start(buf,n)", "F_BYTE", 2, "S_BS_START", {"CONSTB": "0x5f"}, "1"),
    ("indef_string_start", "cbor_encode_indef_string_start(buf,n)", "F_BYTE", 3, "S_STR_START", {"CONSTB": "0x7f"}, "1"),
    ("indef_array_start", "cbor_encode_indef_array_start(buf,n)", "F_BYTE", 4, "S_IARR", {"CONSTB": "0x9f"}, "1"),
    ("indef_map_start", "cbor_encode_indef_map_start(buf,n)", "F_BYTE", 5, "S_IMAP", {"CONSTB": "0xbf"}, "1"),
    ("break", "cbor_encode_break(buf,n)", "F_BYTE", 7, "S_BREAK", {"CONSTB": "0xff"}, "1"),
    ("null", "cbor_encode_null(buf,n)", "F_BYTE", 7, "S_NULL", {"CONSTB": "0xf6"}, "1"),
    ("undef", "cbor_encode_undef(buf,n)", "F_BYTE", 7, "S_UNDEF", {"CONSTB": "0xf7"}, "1"),
    ("bool", "cbor_encode_bool((bool)(v&1),buf,n)", "F_BOOL", 7, "S_BOOL", {}, "2"),
    ("ctrl", "cbor_encode_ctrl((uint8_t)v,buf,n)", "F_IMM8", 7, "S_NONE", {}, "2^8"),
    ("half", "cbor_encode_half(FVAL,buf,n)", "F_HALF", 7, "S_F2", {}, "2^16 half-representable floats"),
    ("single", "cbor_encode_single(FVAL,buf,n)", "F_SINGLE", 7, "S_F4", {}, "2^32"),
    ("double", "cbor_encode_double(FVAL,buf,n)", "F_DOUBLE", 7, "S_F8", {}, "2^64"),
]


def enc_defines(e):
    name, call, form, mt, slot, extra, dom = e
    d = {"CALL": call, "FORM": form, "MT": mt, "SLOT": slot}
    d.update(extra)
    return d
