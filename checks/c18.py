from vf import Obl

ID = "C18"
COMMON = ["cbor_isa_uint", "cbor_isa_negint", "cbor_isa_bytestring", "cbor_isa_string", "cbor_isa_array", "cbor_isa_map", "cbor_isa_tag", "cbor_isa_float_ctrl", "cbor_typeof",
          "cbor_is_int", "cbor_is_float", "cbor_is_bool", "cbor_is_null", "cbor_is_undef", "cbor_refcount"]
KINDS = {
    "K_UINT": (["cbor_get_uint32", "cbor_get_int", "cbor_int_get_width"], "cbor_serialize_uint", [{}]),
    "K_NEGINT": (["cbor_get_uint8", "cbor_get_int", "cbor_int_get_width"], "cbor_serialize_negint", [{}]),
    "K_BSTR": (["cbor_bytestring_length", "cbor_bytestring_is_definite", "cbor_bytestring_is_indefinite", "cbor_bytestring_handle"], "cbor_serialize_bytestring", [{}]),
    "K_TSTR": (["cbor_string_length", "cbor_string_is_definite", "cbor_string_is_indefinite", "cbor_string_handle", "cbor_string_codepoint_count"], "cbor_serialize_string", [{}]),
    "K_IBSTR": (["cbor_bytestring_is_definite", "cbor_bytestring_is_indefinite", "cbor_bytestring_chunk_count", "cbor_bytestring_chunks_handle", "cbor_bytestring_length", "cbor_bytestring_handle"], "cbor_serialize_bytestring", [{"NCH": 0}, {"NCH": 2}]),
    "K_ITSTR": (["cbor_string_is_definite", "cbor_string_is_indefinite", "cbor_string_chunk_count", "cbor_string_chunks_handle", "cbor_string_length", "cbor_string_handle", "cbor_string_codepoint_count"], "cbor_serialize_string", [{"NCH": 0}, {"NCH": 2}]),
    "K_ARR": (["cbor_array_size", "cbor_array_allocated", "cbor_array_is_definite", "cbor_array_is_indefinite", "cbor_array_handle"], "cbor_serialize_array", [{"NCH": 0}, {"NCH": 2}]),
    "K_IARR": (["cbor_array_size", "cbor_array_allocated", "cbor_array_is_definite", "cbor_array_is_indefinite", "cbor_array_handle"], "cbor_serialize_array", [{"NCH": 0}, {"NCH": 3}]),
    "K_MAP": (["cbor_map_size", "cbor_map_allocated", "cbor_map_is_definite", "cbor_map_is_indefinite", "cbor_map_handle"], "cbor_serialize_map", [{"NCH": 0}, {"NCH": 2}]),
    "K_IMAP": (["cbor_map_size", "cbor_map_allocated", "cbor_map_is_definite", "cbor_map_is_indefinite", "cbor_map_handle"], "cbor_serialize_map", [{"NCH": 1}]),
    "K_TAG": (["cbor_tag_value"], "cbor_serialize_tag", [{}]),
    "K_FLOAT": (["cbor_float_get_width", "cbor_float_ctrl_is_ctrl", "cbor_float_get_float"], "cbor_serialize_float_ctrl", [{"FW": 2}, {"FW": 4}, {"FW": 8}]),
    "K_CTRL": (["cbor_float_get_width", "cbor_float_ctrl_is_ctrl", "cbor_ctrl_value", "cbor_get_bool"], "cbor_serialize_float_ctrl", [{}]),
}
FLOATGET = {2: "cbor_float_get_float2", 4: "cbor_float_get_float4", 8: "cbor_float_get_float8"}
SER_ALL = ["cbor_serialize_uint", "cbor_serialize_negint", "cbor_serialize_bytestring", "cbor_serialize_string", "cbor_serialize_array", "cbor_serialize_map", "cbor_serialize_tag", "cbor_serialize_float_ctrl"]
RECURSIVE = {"cbor_serialize_bytestring", "cbor_serialize_string"}
VIA_DISPATCH = {"cbor_serialize_array", "cbor_serialize_map", "cbor_serialize_tag"}


def dfcc(name, defs, enforce=(), enforce_rec=(), replace=(), desc="", timeout=900, mem=12):
    extra = []
    for f in enforce_rec:
        extra += ["--enforce-contract-rec", f]
    return Obl(name, "h_frame.c", defs, variant="dbg+noalloc", extra_src=["alloc_shim.c"], pipeline="dfcc",
               dfcc={"enforce": list(enforce), "replace": list(replace), "extra": extra}, unwind=10, unwindset=["_cbor_highest_bit.0:66", "_cbor_unicode_codepoint_count.0:4"],
               flags=["--object-bits", "11"], timeout=timeout, mem_gb=mem, desc=desc, funcs=list(enforce) + list(enforce_rec), drop_base=["--pointer-overflow-check"],
               bounds="parent of the named kind with symbolic scalars; recursive callees replaced by their contracts", sample=dict(defs, enforce=list(enforce) + list(enforce_rec), replace=list(replace)))


def obligations(tier):
    o = []
    for kind, (getters, ser, shapes) in KINDS.items():
        for si, sh in enumerate(shapes):
            tag = kind[2:].lower() + "".join("_%s%s" % (k.lower(), v) for k, v in sh.items())
            d = dict(sh, KIND=kind)
            g = list(getters) + ([FLOATGET[sh["FW"]]] if "FW" in sh else [])
            if kind in ("K_UINT", "K_CTRL") and si == 0:
                g = COMMON + g          # type predicates are type-independent code: checked on two item kinds
            if si > 0 and kind in ("K_FLOAT",):
                g = [x for x in g if x not in getters] or g[:1]
            for fn in g:
                if fn == "cbor_get_bool":
                    continue            # requires a boolean item (CBOR_ASSERT): covered on its own below
                # --enforce-contract-rec: works for non-recursive functions too, and a getter that became recursive is still checked
                # (recursive calls are assumed to satisfy assigns(); the outermost frame's stores are checked)
                o.append(dfcc("%s_on_%s" % (fn, tag), dict(d, FN=fn), enforce_rec=[fn], timeout=600,
                              desc="%s on a %s item (hand-laid-out, symbolic scalars and reference count) under the contract assigns(): no store at all, at any instant" % (fn, tag)))
            o.append(dfcc("cbor_serialized_size_on_%s" % tag, dict(d, FN="cbor_serialized_size"), enforce_rec=["cbor_serialized_size"],
                          desc="cbor_serialized_size on a %s parent under assigns(), recursive calls assumed to satisfy the same contract (structural induction over depth)" % tag))
            dd = dict(d, CALL_SERIALIZE=1, FN=ser)
            if ser in RECURSIVE:
                o.append(dfcc("%s_on_%s" % (ser, tag), dd, enforce_rec=[ser], desc="%s under assigns(buffer[0..n)) + return <= n; writes only into the output buffer; chunk recursion by contract" % ser))
            elif ser in VIA_DISPATCH:
                o.append(dfcc("%s_on_%s" % (ser, tag), dd, enforce=[ser], replace=["cbor_serialize"], desc="%s under assigns(buffer[0..n)) + return <= n; children serialized by cbor_serialize's contract (any depth by induction)" % ser))
            else:
                o.append(dfcc("%s_on_%s" % (ser, tag), dd, enforce=[ser], desc="%s under assigns(buffer[0..n)) + return <= n" % ser))
            if si == 0:
                o.append(dfcc("cbor_serialize_dispatch_on_%s" % tag, dict(d, CALL_SERIALIZE=1, FN="cbor_serialize"), enforce=["cbor_serialize"], replace=SER_ALL,
                              desc="cbor_serialize (dispatcher) under assigns(buffer[0..n)) with the per-type serializers replaced by their contracts"))
    return o


META = dict(
    level="model_checking",
    bounds="parents of every item kind with 0..3 children and symbolic scalars; any depth by structural induction (callee contracts); output buffer size symbolic 0..24",
    assumptions=["goto-instrument --dfcc instruments every assignment in the enforced function and its non-replaced callees", "DFCC obligations link all units except allocators.c (front-end crash workaround); thin wrapper allocators stand in",
                 "getters that hand out a new reference (cbor_array_get, cbor_tag_item) are excluded, as the property states", "induction over tree depth from the per-function obligations is a paper argument"],
    outside=["cbor_copy / cbor_describe (not in the property's read-only set)", "compiler-introduced stores (-O2): the claim is about source semantics"],
    explanation="Frame conditions are checked at every assignment, not by comparing states before/after, which is what 'at every instant' requires; a failing obligation is confirmed natively by running the same call on a tree inside a write-protected mmap arena.",
    technique="CBMC dynamic frame condition checking (goto-instrument --dfcc, assigns() contracts) on the real sources; violations confirmed natively in an mprotect(PROT_READ) arena",
)
