from vf import Obl

ID = "C16"
F = ["_cbor_unicode_codepoint_count", "_cbor_unicode_decode", "cbor_string_set_handle", "cbor_build_stringn", "cbor_string_codepoint_count",
     "cbor_string_length", "cbor_string_handle", "cbor_builder_string_callback", "cbor_load"]


def obligations(tier):
    o = []
    L = 6 if tier == "quick" else 8
    us = ["ref_utf8.0:%d" % (L + 1), "ref_utf8.1:4", "_cbor_unicode_codepoint_count.0:%d" % (L + 1)]
    for mode, nm in (("M_SET_HANDLE", "set_handle"), ("M_BUILDN", "build_stringn")):
        for ll in ([4, L] if tier == "quick" else [4, 6, L]):
            o.append(Obl("%s_all_strings_len_le%d" % (nm, ll), "h_utf8.c", {"MODE": mode, "MAXL": ll}, unwind=ll + 2, timeout=1200, mem_gb=12 if ll >= 8 else 8,
                         funcs=F, desc="every byte string of length <= %d through %s vs RFC 3629 validator" % (ll, nm), bounds="all 256^k strings, k <= %d" % ll,
                         sample={"mode": nm, "max_len": ll}))
    for ln in range(0, (5 if tier == "quick" else 7)):
        o.append(Obl("load_text_len%d_all_contents" % ln, "h_utf8.c", {"MODE": "M_LOAD", "LEN": ln}, unwind=ln + 3, timeout=600, funcs=F, leak=True,
                     desc="cbor_load of 0x6%d + %d symbolic bytes: never rejected, count per RFC 3629, bytes preserved" % (ln, ln), bounds="all contents of length %d" % ln))
    # advisory: this lemma is about the *current implementation* (Hoehrmann's DFA and its state numbering); a different but correct validator
    # would make it fail or not compile without violating C16, so its failure is recorded in the evidence and does not raise an alarm
    o.append(Obl("dfa_step_all_states_all_bytes", "h_utf8.c", {"MODE": "M_DFA_STEP"}, unwind=3, funcs=F, advisory=True,
                 desc="_cbor_unicode_decode from ANY of the 9 states on ANY byte moves to the state the reference automaton prescribes (induction step: strings of any length)",
                 bounds="9 states x 256 bytes x any codepoint register"))
    o.append(Obl("count_base_one_byte", "h_utf8.c", {"MODE": "M_COUNT_STEP"}, unwind=4, funcs=F, desc="counter base case on every 1-byte string", bounds="256 bytes"))
    import treecheck as tc
    import skeleton as sk
    o += tc.batch_obligations("long_text", sk.enum_long_text(), "h_load.c", {"P_TREE": 1}, truncations=False, weight_cap=400, max_cases=8, funcs=F, ptrcheck=False, extra_unwind=12,
                              flags=["--max-field-sensitivity-array-size", "700"],
                              desc="concrete text strings of 9..300 bytes decoded by cbor_load: multi-byte sequences across 8/16/32/64-byte boundaries, truncated sequences at the very end, "
                                   "surrogate / overlong / > U+10FFFF sequences after the first 8 bytes, 256+ code points: count per RFC 3629 or 0, content preserved")
    return o


META = dict(
    level="model_checking", exhaustive=True,
    bounds={"quick": "every byte string of length 0..6 (set_handle, build_stringn), 0..4 through cbor_load; 60 concrete strings of 9..300 bytes built around block boundaries and late faults; DFA step lemma (advisory) over all (state, byte) pairs",
            "thorough": "every byte string of length 0..8, 0..6 through cbor_load; DFA step lemma"},
    assumptions=["reference validator ref_utf8 (RFC 3629 section 4 ranges per lead byte, no DFA) in h_utf8.c"],
    outside=["strings longer than the bound are covered only through the DFA step lemma plus the (unproved, stated) induction over the counting loop"],
    explanation="The count is compared for every byte string up to the bound in one query per entry point; a separate query shows every DFA transition agrees with a "
                "semantic reference automaton, which extends the claim to any length by induction on the loop.",
)
