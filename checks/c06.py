from vf import Obl
import treecheck as tc
import skeleton as sk

ID = "C06"
F = ["cbor_load", "cbor_builder_*_callback", "_cbor_builder_append", "_cbor_stack_push", "cbor_copy", "_cbor_copy_int", "cbor_serialize_alloc", "cbor_new_*", "cbor_build_*",
     "cbor_array_push", "_cbor_map_add_key", "cbor_bytestring_add_chunk", "cbor_string_add_chunk", "_cbor_alloc_multiple", "_cbor_realloc_multiple", "cbor_decref"]


def _obls(prefix, fam, defines, gen, tier, cap, maxc, desc):
    o = []
    for bi, b in enumerate(tc.batches(fam, cap, maxc, False)):
        maxn = max(len(s["bytes"]) for s in b)
        maxnodes = max(len(s["outcome"].nodes) for s in b)
        kmax = 3 * maxnodes + 6
        fn, src = gen(b)
        o.append(Obl("%s_batch%03d" % (prefix, bi), "h_oom.c", defines, variant="dbg", cost=100000 + sum(len(s["outcome"].nodes) ** 2 for s in b), unwind=max(kmax, maxn, 9 * maxnodes) + 6, gen_src={fn: src}, timeout=1200, leak=True, funcs=F,
                     desc=desc, bounds="%d scenarios, every fault index k < N (N observed per scenario, <= %d), both 'k alone' and 'k and all later'; data symbolic" % (len(b), kmax),
                     sample={"scenarios": [s["name"] for s in b[:4]]}))
    return o


def obligations(tier):
    o = []
    fam = [s for s in tc.family(tier) if s["outcome"].ok]
    if tier == "quick":
        # decoder scenarios: accepted members with >= 2 heads of S(3), variety and special shapes, thinned to one leaf kind per shape class
        fam = [s for s in fam if not s["in_S"] or s["nheads"] <= 2] + [s for i, s in enumerate(x for x in fam if x["in_S"] and x["nheads"] == 3) if i % 3 == 0]
    if tier == "quick":
        fam = [s for s in fam if len(s["outcome"].nodes) <= 5]
    else:
        fam = [s for i, s in enumerate(fam) if len(s["outcome"].nodes) <= 8 and (not (s["in_S"] and s["nheads"] == 4) or i % 3 == 0)]
    o += _obls("load_refusal", fam, {"M_LOAD": 1}, lambda b: ("cases.h", sk.c_cases(b, 2048, False)), tier, 16, 3,
               "cbor_load with allocation request k refused (k alone / k and later), every k: NULL + MEMERROR + position just past a head + nothing allocated; the fault-free run succeeds with the expected tree")
    trees = sk.construction_family(tier) + [s for s in tc.family(tier) if s["outcome"].ok and not s["in_S"]][: (20 if tier == "quick" else 200)]
    if tier == "quick":
        trees = [s for s in trees if len(s["outcome"].nodes) <= 5]
    else:
        trees = [s for s in trees if len(s["outcome"].nodes) <= 6]   # 8-node trees: the fault enumeration (~30 indices x 2 ops x 2 schedules) exhausts 8 GB
    o += _obls("copy_serialize_alloc_refusal", trees, {"M_TREEOPS": 1}, lambda b: ("trees.h", sk.c_trees(b)), tier, 12, 2,
               "cbor_copy and cbor_serialize_alloc with request k refused, every k: NULL / (0, NULL, size 0), allocations back to the pre-call level, argument tree byte-identical (walker + every reference count)")
    for part in (1, 2, 3, 4):
        o.append(Obl("builders_refusal_part%d" % part, "h_oom.c", {"M_BUILDERS": 1, "PART": part}, variant="dbg", unwind=8, timeout=900, leak=True, funcs=F,
                     desc="every cbor_new_* / cbor_build_* constructor with request k refused: NULL, nothing leaked, argument (tagged child) untouched", bounds="all constructors, k < requests made, scalar arguments symbolic"))
    for kind, nm in ((1, "array_push"), (2, "map_add"), (3, "bytestring_add_chunk"), (4, "string_add_chunk")):
        for pre in (0, 1, 2, 3, 4):
            o.append(Obl("grow_refusal_%s_at_size%d" % (nm, pre), "h_oom.c", {"M_GROW": 1, "KIND": kind, "PRE": pre}, variant="dbg", unwind=8, timeout=600, leak=True, funcs=F,
                         desc="%s into an indefinite container holding %d entries with the growth reallocation refused: false, size/capacity/contents/reference counts unchanged" % (nm, pre),
                         bounds="growth steps 0->1->2->4->8"))
    return o


META = dict(
    level="fault_enumeration",
    rule="one evaluation = one CBMC query covering a batch of scenarios x every fault index k x both schedules (k alone; k and all later), k enumerated concretely inside the harness until the run that makes <= k requests (the fault-free run); "
         "distinct = distinct (batch, schedule family); non-trivial = at least one refusal actually reached (asserted by the harness: the fault enumeration must reach the fault-free run, and the witness must be reachable)",
    bounds={"quick": "(trees of <= 5 nodes in the quick tier) decoder: accepted skeletons of <= 2 heads, a third of the 3-head ones, variety and special shapes; tree ops: 65 construction programs + 20 special decoder trees; all constructors; growth at sizes 0..4 for all four growable containers; single-fault and fail-stop schedules, complete per scenario",
            "thorough": "decoder: accepted skeletons of <= 8 nodes (every 3rd of the 4-head ones); originally planned: all accepted skeletons <= 4 heads (all of S(3), every accepted 4-head sequence, every 4th rejected and every 16th still-open 4-head sequence); tree ops on 200 decoder trees"},
    assumptions=["fault index k concrete (a symbolic k re-creates the pointer-merge blow-up, DESIGN 1.1); N is observed in the run itself, not assumed", "pointer checks ON: a NULL dereference on a failure path is a failed property"],
    outside=["arbitrary multi-fault subsets other than fail-stop"],
    explanation="Exhaustive enumeration of single-fault and fail-stop schedules per scenario with symbolic data; every run is a CBMC execution of the real code with memory checks and leak check.",
)
