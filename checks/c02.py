from vf import Obl
import treecheck as tc

ID = "C02"
F = ["cbor_load", "cbor_stream_decode", "_cbor_builder_append", "cbor_builder_*_callback (all 24)", "_cbor_stack_push", "_cbor_stack_pop", "cbor_decref",
     "cbor_new_*", "cbor_array_push", "_cbor_map_add_key", "_cbor_map_add_value", "cbor_bytestring_add_chunk", "cbor_string_add_chunk", "cbor_tag_set_item"]


def obligations(tier):
    fam = tc.family(tier)
    o = []
    for v in ("dbg", "ndbg"):
        o += tc.batch_obligations("load_tree", fam, "h_load.c", {"P_TREE": 1}, variant=v, truncations=False, funcs=F, ptrcheck=False, weight_cap=160, max_cases=24,
                                  desc="cbor_load accepts iff the RFC 8949 reference accepts; read == item length; tree == expected tree (types, widths, values, flavour, chunking, order), refcount 1, input freed before the walk")
    o += tc.large_obligations("load_tree_large", {"P_TREE": 1}, "load", funcs=F, desc="large shapes (growth past the third reallocation, counts/lengths beyond the immediate form, depth 6, mixed maps): accept, read, tree == expected")
    return o


def post(tier, results):
    """Translator validation: the reference decoder and the real library must agree on every byte-array literal of the repository's own
    tests and on every truncation of the short ones (native build of the current sources). A disagreement is reported with the vector as
    its replay artefact: on the unchanged tree there is none, so it means the library changed behaviour on a vector its own suite pins."""
    import json, os
    import vectors, vf
    r = vectors.run()
    out = {"repo_test_vectors": {k: v for k, v in r.items() if k != "mismatches"}, "traces_validated_against_impl": r.get("cases_with_truncations", 0)}
    if r.get("error"):
        out["inconclusive"] = [{"obligation": "repo_test_vectors", "status": "ERROR", "msg": r["error"]}]
    elif r.get("mismatches"):
        os.makedirs(vf.REPLAYS, exist_ok=True)
        path = os.path.join(vf.REPLAYS, "C02-vectors.json")
        json.dump({"property_id": "C02", "mismatches": r["mismatches"][:20]}, open(path, "w"), indent=1)
        m = r["mismatches"][0]
        out["violations"] = [{"obligation": "repo_test_vectors", "description": "cbor_load disagrees with the RFC 8949 reference decoder on %s (%s): library %s, reference %s" % (m["vector"], m.get("bytes"), m.get("library"), m.get("reference")),
                              "replay": path, "native": "native run of cbor_load on the vector", "location": {}}]
    return out


META = dict(
    level="model_checking",
    bounds={"quick": "all live head sequences of <= 3 heads over a 17-symbol structural alphabet (counts/lengths 0..2, every reserved-byte class, every argument-width form) + leaf-variety and named special shapes; every integer/float/tag argument byte and payload byte symbolic; DEBUG and NDEBUG builds",
            "thorough": "same with <= 4 heads (all of S(3), every accepted 4-head sequence, every 4th rejected and every 16th still-open 4-head sequence)"},
    assumptions=["allocations succeed (C06 owns refusal)", "default nesting limit (C19 owns the limit)", "head bytes, counts and lengths are concrete per skeleton (control); the C08 lemma shows each immediate behaves as its 1-byte form",
                 "expected outcomes come from lib/skeleton.py's reference decoder (RFC 8949 + profile), not from libcbor"],
    outside=["inputs with more heads than the bound", "byte-exhaustive symbolic input to cbor_load (does not finish even for 1 byte)"],
    explanation="Per skeleton, CBMC executes the real cbor_load on an exact-size heap block with all data symbolic, frees the input, and walks the tree through public getters against the reference's expected tree.",
)
