from vf import Obl

ID = "C15"
F = ["_cbor_load_half", "_cbor_decode_half", "_cbor_load_float", "_cbor_load_double", "cbor_encode_half", "cbor_encode_single",
     "cbor_encode_double", "cbor_build_float2", "cbor_build_float4", "cbor_build_float8", "cbor_float_get_float2", "cbor_float_get_float4",
     "cbor_float_get_float8", "cbor_float_get_float", "cbor_serialize_float_ctrl", "cbor_builder_float2_callback",
     "cbor_builder_float4_callback", "cbor_builder_float8_callback"]
MODES = [("half_all_2^16_patterns", "M_HALF", "all 65,536 half patterns"),
         ("encode_half_total_all_2^32_floats", "M_HALF_TOTAL", "all 2^32 binary32 patterns"),
         ("single_all_2^32_patterns", "M_SINGLE", "all 2^32 single patterns"),
         ("double_all_2^64_patterns", "M_DOUBLE", "all 2^64 double patterns"),
         ("item_half_load_get_build_serialize", "M_ITEM_HALF", "all 2^16 patterns through cbor_load/getters/cbor_build_float2/cbor_serialize"),
         ("item_single_load_get_build_serialize", "M_ITEM_SINGLE", "all 2^32 patterns through the item API"),
         ("item_double_load_get_build_serialize", "M_ITEM_DOUBLE", "all 2^64 patterns through the item API")]


def obligations(tier):
    obls = []
    variants = ["dbg", "ndbg"] if tier == "thorough" else ["dbg"]
    for v in variants:
        for name, mode, dom in MODES:
            item = mode.startswith("M_ITEM")
            obls.append(Obl("%s_%s" % (name, v), "h_float.c", {"MODE": mode}, variant=v, unwind=12,
                            unwindset=["ref_half_to_single_bits.0:12"], timeout=600, funcs=F, leak=item,
                            flags=["--float-overflow-check"] if mode == "M_HALF_TOTAL" else [],
                            desc=dom + ": decode bit-exact vs integer-only IEEE-754 reference, encode reproduces bytes, NaN -> canonical quiet NaN",
                            bounds=dom + " (exhaustive)", sample={"mode": mode, "domain": dom}))
    if tier == "thorough":
        for name, mode, dom in MODES[:4]:
            obls.append(Obl("%s_dbg_cadical" % name, "h_float.c", {"MODE": mode}, variant="dbg", unwind=12, backend="cadical",
                            unwindset=["ref_half_to_single_bits.0:12"], timeout=900, funcs=F, desc=dom + " re-decided on CaDiCaL", bounds=dom))
    return obls


META = dict(
    level="model_checking", exhaustive=True,
    bounds="every 16-, 32- and 64-bit pattern (one symbolic variable per width; no sampling, no stride)",
    assumptions=["IEEE-754 binary32/binary64 as modelled by CBMC's float theory", "ldexp model: x * 2^e with 2^e built from its bit pattern, asserted e in normal range; exact for mant in [0,2047], e in [-25,5]",
                 "reference conversion binary16->binary32 is integer-only (ref.h)"],
    outside=["x87 / non-IEEE platforms", "half encoding of non-half-representable floats beyond totality"],
    explanation="Each width is a single query over the full pattern space, at kernel level (_cbor_load_* / cbor_encode_*) and through the item API "
                "(cbor_load -> getters -> cbor_build_float* -> cbor_serialize). --float-overflow-check, shift and signed-overflow checks are on for the totality clause.",
)
