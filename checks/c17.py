import json
import os
import re
import shutil
import subprocess
import tempfile
import vf
from vf import Obl
import treecheck as tc
import skeleton as sk

ID = "C17"
F = ["cbor_load", "cbor_describe", "cbor_serialize", "cbor_serialized_size", "cbor_copy", "cbor_decref", "cbor_build_*", "cbor_new_*", "cbor_set_allocs (excluded by precondition)"]
EXPECTED = {"_cbor_malloc", "_cbor_realloc", "_cbor_free", "_cbor_enable_assert"}   # plus cbor_load's function-local callback table (callbacks.N)


def obligations(tier):
    trees = sk.construction_family(tier) + [s for s in tc.family(tier) if s["outcome"].ok and not s["in_S"]]
    if tier == "quick":
        trees = trees[::2]
    o = []
    for v in ("dbg", "ndbg"):
        o += tc.tree_obligations("static_objects_unchanged", trees, {"P_GLOBALS": 1}, variant=v, funcs=F, weight_cap=160, max_cases=24,
                                 desc="decode or build, describe, size, serialize, copy, describe the copy, release -- with symbolic data: the library's writable static objects with external linkage "
                                      "(_cbor_malloc, _cbor_realloc, _cbor_free%s) hold the same values afterwards, for all inputs" % (", _cbor_enable_assert" if v == "dbg" else ""))
    return o


def post(tier, results):
    """Census of static-lifetime writable objects, regenerated from the current sources, with a native write-watch.
    Not a solver step and not an exploration of schedules: a coverage guard for objects the harness cannot name."""
    d = tempfile.mkdtemp(prefix="c17census_")
    out = {}
    try:
        cfg = os.path.join(d, "cfg")
        vf.gen_config(cfg)
        objs, found = [], []
        for f in vf.src_files():
            obj = os.path.join(d, os.path.relpath(f, vf.SRC).replace("/", "_") + ".o")
            r = subprocess.run(["gcc", "-std=gnu99", "-O0", "-g", "-w", "-DEIGHT_BYTE_SIZE_T", "-DDEBUG=true", "-I" + vf.SRC, "-I" + cfg, "-c", f, "-o", obj], stdout=subprocess.PIPE, stderr=subprocess.STDOUT)
            if r.returncode != 0:
                return {"inconclusive": [{"obligation": "static_object_census", "status": "ERROR", "msg": r.stdout.decode()[-400:]}]}
            objs.append(obj)
            # objdump -t: objects (O) in writable sections only; .rodata and .data.rel.ro (const objects holding relocations) are not writable state
            for line in subprocess.run(["objdump", "-t", obj], stdout=subprocess.PIPE).stdout.decode().splitlines():
                m = re.match(r"([0-9a-f]+)\s+\S\s+O\s+(\S+)\s+([0-9a-f]+)\s+(\S+)$", line)
                if m and (m.group(2) in (".data", ".bss", "*COM*", ".tdata", ".tbss") or re.match(r"\.(data|bss)\.(?!rel\.ro)", m.group(2))):
                    found.append({"unit": os.path.relpath(f, vf.SRC), "symbol": m.group(4), "size": int(m.group(3), 16), "section": m.group(2)})
        exe = os.path.join(d, "w")
        r = subprocess.run(["gcc", "-std=gnu99", "-O0", "-g", "-w", "-no-pie", "-DEIGHT_BYTE_SIZE_T", "-DDEBUG=true", "-I" + vf.SRC, "-I" + cfg, os.path.join(vf.HARNESS, "w_globals.c")] + objs + ["-lm", "-o", exe],
                           stdout=subprocess.PIPE, stderr=subprocess.STDOUT)
        if r.returncode != 0:
            return {"inconclusive": [{"obligation": "static_object_census", "status": "ERROR", "msg": r.stdout.decode()[-400:]}]}
        names = {x["symbol"] for x in found}
        watch = []
        for line in subprocess.run(["nm", "-S", exe], stdout=subprocess.PIPE).stdout.decode().splitlines():
            m = re.match(r"([0-9a-f]+) ([0-9a-f]+) ([dDbBC]) (\S+)", line)
            if m and m.group(4) in names:
                watch.append("%s:%s:%s" % (m.group(1), m.group(2), m.group(4)))
        p = subprocess.run([exe], env=dict(os.environ, VF_WATCH=",".join(watch)), stdout=subprocess.PIPE, stderr=subprocess.STDOUT, timeout=60)
        txt = p.stdout.decode()
        changed = re.findall(r"CHANGED (\S+)", txt)
        unexpected = [x for x in found if x["symbol"] not in EXPECTED and not re.match(r"callbacks\.\d+$", x["symbol"])]
        out["static_object_census"] = {"objects": found, "watched": len(watch), "changed_during_workload": sorted(set(changed)), "unexpected": unexpected}
        if changed:
            os.makedirs(vf.REPLAYS, exist_ok=True)
            path = os.path.join(vf.REPLAYS, "C17-census.json")
            json.dump({"property_id": "C17", "changed": sorted(set(changed)), "objects": found, "how": "native workload (harness/w_globals.c) run twice, byte ranges of the static objects compared", "output": txt[-800:]}, open(path, "w"), indent=1)
            out["violations"] = [{"obligation": "static_object_census", "description": "static-lifetime object(s) written during ordinary single-threaded API use (hidden mutable global state): %s" % sorted(set(changed)),
                                  "replay": path, "native": "byte ranges differ after the native workload", "location": {}}]
    finally:
        shutil.rmtree(d, ignore_errors=True)
    return out


META = dict(
    level="other",
    bounds="REDUCED CLAIM. No interleaving is explored: CBMC aborts on multi-threaded programs that dereference pointers ('pointer handling for concurrency is unsound'), and the whole library is pointer-based. "
           "Decided by the solver: the named static objects are unchanged by the whole client pipeline for all data. Guarded (not decided) by a census regenerated on every run: the set of writable static-lifetime objects in the 20 units, "
           "with a native write-watch over a fixed workload.",
    assumptions=["cbor_set_allocs is called once before threads start (property precondition)", "race freedom for threads on disjoint items follows from 'no shared writable state' + C18/C07 frame obligations by a standard non-interference argument that is NOT machine-checked",
                 "schedules are neither enumerated nor solved"],
    outside=["any actual schedule; data races through objects the census cannot see (none exist in C without static storage, but e.g. errno/locale use inside libc is outside the claim)"],
    explanation="Sufficient-condition check for C17: (1) solver: for every tree scenario with symbolic data the library's externally visible writable statics are bit-identical after decode/build/describe/size/serialize/copy/release; "
                "(2) census guard: nm over freshly compiled units lists every writable static object (today: three allocator pointers, cbor_load's callback table, the DEBUG assertion switch); a native workload watches their bytes. "
                "A new scratch buffer, cache, or global decoder context that is written during API use changes (2) and is reported. The schedule quantifier of the property itself is not discharged.",
    technique="reduced claim: CBMC obligations that the library's writable static objects are unchanged for all data + regenerated nm census with native write-watch; interleavings are not explored (not encodable)",
    level_text="Sufficient-condition check only (no hidden mutable global state); the interleaving quantifier is not discharged. See DESIGN.md C17.",
)
