#!/bin/sh
# Offline setup: nothing to fetch or compile ahead of time; verify the tools the checks need are present.
set -e
cd "$(dirname "$0")"
for t in cbmc goto-cc goto-instrument gcc python3; do
  command -v $t >/dev/null 2>&1 || { echo "missing tool: $t"; exit 1; }
done
cbmc --version
chmod +x vcheck
mkdir -p evidence
echo "setup ok"
