#!/bin/bash
# verify_seed.sh <dir with patch.diff + build_and_run_demo.sh>: confirms in a scratch worktree that the change compiles,
# passes the pinned test suite, that the demonstration fails with it and passes without it. Removes the worktree afterwards.
set -u
D=$(readlink -f "$1"); ID=$(basename "$D"); WT=/tmp/vs_$ID
git -C /repo worktree remove --force $WT 2>/dev/null; rm -rf $WT
git -C /repo worktree add -q --detach $WT HEAD || exit 2
cd $WT
git apply "$D/patch.diff" || { echo "PATCH DOES NOT APPLY"; git -C /repo worktree remove --force $WT; exit 2; }
cmake -G Ninja -S $WT -B $WT/_build -DWITH_TESTS=ON -DWITH_EXAMPLES=OFF -DSANITIZE=ON -DCMAKE_BUILD_TYPE=RelWithDebInfo >/dev/null 2>&1 && cmake --build $WT/_build -j6 >/dev/null 2>&1
BUILD=$?
ctest --test-dir $WT/_build -j6 --timeout 900 2>&1 | tail -3
TESTS=${PIPESTATUS[0]}
bash "$D/build_and_run_demo.sh" $WT >/tmp/vs_$ID.with.log 2>&1; WITH=$?
rm -rf $WT/_build
git checkout -q -- . 
bash "$D/build_and_run_demo.sh" $WT >/tmp/vs_$ID.without.log 2>&1; WITHOUT=$?
cd /; git -C /repo worktree remove --force $WT
echo "seed=$ID build=$BUILD tests=$TESTS demo_with_change=$WITH demo_without_change=$WITHOUT"
[ $BUILD -eq 0 ] && [ $TESTS -eq 0 ] && [ $WITH -ne 0 ] && [ $WITHOUT -eq 0 ] && echo "SEED OK" || echo "SEED REJECTED"
