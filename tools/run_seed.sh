#!/bin/bash
# run_seed.sh <seed dir> <check id>...: applies the seeded change to /repo, runs the given checks (quick), restores /repo.
D=$(readlink -f "$1"); shift
git -C /repo apply "$D/patch.diff" || exit 2
for c in "$@"; do
  timeout 3000 /verif/vcheck $c --tier quick --no-evidence > /tmp/seedrun_$(basename $D)_$c.log 2>&1
  rc=$?
  echo "$c exit=$rc $(grep -c '^VIOLATION' /tmp/seedrun_$(basename $D)_$c.log) violation line(s): $(grep -m1 'violated:' /tmp/seedrun_$(basename $D)_$c.log | cut -c1-220)"
done
git -C /repo checkout -- . && git -C /repo clean -fdq -- src test
git -C /repo status --short | grep -v _build
