#!/bin/bash
# run_benign.sh <patch> <check id>...: applies a behaviour-preserving refactoring to /repo, runs the given checks (quick), restores /repo.
# Every check must exit 0 (no VIOLATION, no inconclusive obligation).
P=$(readlink -f "$1"); shift
git -C /repo apply "$P" || exit 2
for c in "$@"; do
  timeout 3000 /verif/vcheck $c --tier quick --no-evidence > /tmp/benign_$(basename $P .diff)_$c.log 2>&1
  rc=$?
  echo "$(basename $P .diff) $c exit=$rc $(tail -1 /tmp/benign_$(basename $P .diff)_$c.log | cut -c1-110)"
done
git -C /repo checkout -- . && git -C /repo clean -fdq -- src test
