#!/bin/bash
# regress_seeds.sh: every seeded change must still be reported (exit 1 + VIOLATION) by the check named after its property.
cd /verif
for d in seeded/*/; do
  n=$(basename $d); c=${n%%_*}
  [ "$n" = "C04_opener_in_chunked_string_leak" ] && c=C05
  git -C /repo apply "$PWD/$d/patch.diff" || { echo "$n APPLY-FAILED"; continue; }
  timeout 3000 ./vcheck $c --tier quick --no-evidence > /tmp/regress_$n.log 2>&1; rc=$?
  git -C /repo checkout -- . && git -C /repo clean -fdq -- src test
  echo "$n $c exit=$rc violations=$(grep -c '^VIOLATION' /tmp/regress_$n.log) $(tail -1 /tmp/regress_$n.log | cut -c1-90)"
done
git -C /repo status --short | grep -v _build
